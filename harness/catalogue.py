"""The tree catalogue (DESIGN 3.2): T1 every primitive in minimal form, T2 every container x every
leaf kind in the value position and non-Count aggregators in flow positions, T3 depth-3 compositions,
T4 random trees drawn from the grammar."""

from fractions import Fraction as F

from . import desc as D


def leaves(named=False):
    nm = (lambda s: s) if named else (lambda s: "")
    return [
        D.Count(),
        D.Sum("x", nm=nm("sx")),
        D.Sum("y", nm=nm("sy")),
        D.Average("x", nm=nm("ax")),
        D.Deviate("y", nm=nm("dy")),
        D.Minimize("x", nm=nm("mnx")),
        D.Maximize("y", nm=nm("mxy")),
        D.Bag("x", "N", nm=nm("bx")),
        D.Bag("x", "N2", nm=nm("bxy")),
        D.Bag("c", "S", nm=nm("bc")),
    ]


def containers(v, named=False):
    """every container kind with child v (binning on x; children may read y)"""
    nm = (lambda s: s) if named else (lambda s: "")
    return [
        D.Bin(2, 0, 4, "x", v, nm=nm("binx")),
        D.Bin(4, 0, 4, "x", v, nm=nm("bin4")),
        D.Bin(1, 0, 4, "x", v),            # (a single bin)
        D.Bin(3, -1, 2, "x", v),
        D.SparselyBin(2, "x", v, nm=nm("spx")),
        D.SparselyBin(2, "x", v, origin=1),
        D.SparselyBin(F(1, 2), "x", v),
        D.CentrallyBin([0, 2, 4], "x", v, nm=nm("cbx")),
        D.IrregularlyBin([1, 3], "x", v, nm=nm("irx")),
        D.IrregularlyBin([1, 1, 3], "x", v),     # (a repeated threshold: an empty interval)
        D.Stack([1, 3], "x", v, nm=nm("stx")),
        D.Stack([3, 1, 2], "x", v),        # (the thresholds of a Stack need not be sorted)
        D.Categorize("c", v, nm=nm("catc")),
        D.Fraction("s", v, nm=nm("frs")),
        D.Select("s", v, nm=nm("sels")),
        D.Label(a=v, b=v),
        D.UntypedLabel(a=v, b=D.Count()),
        D.Index(v, v),
        D.Branch(v, D.Sum("x")),
    ]


def flow_children():
    """containers whose flow positions hold quantity-carrying aggregators (their names and contents must survive
    wherever the container itself is nested)"""
    return [
        D.Bin(2, 0, 4, "y", D.Count(), under=D.Sum("y"), over=D.Average("x"), nan=D.Sum("x")),
        D.SparselyBin(2, "y", D.Count(), nan=D.Sum("x")),
        D.SparselyBin(1, "y", D.Sum("x"), nan=D.Minimize("x")),
        D.CentrallyBin([0, 2, 4], "y", D.Count(), nan=D.Average("x")),
        D.IrregularlyBin([1, 3], "y", D.Count(), nan=D.Sum("x")),
        D.Stack([1, 3], "y", D.Count(), nan=D.Maximize("x")),
    ]


def T1():
    return leaves() + [D.Count("sq")] + containers(D.Count())


def T2():
    out = []
    for v in leaves()[1:]:
        out.extend(containers(v))
    # non-Count aggregators in flow positions
    for fl in (D.Sum("y"), D.SparselyBin(2, "y"), D.Categorize("c"), D.Minimize("y")):
        out.append(D.Bin(2, 0, 4, "x", D.Count(), under=fl, over=fl, nan=fl))
        out.append(D.SparselyBin(2, "x", D.Count(), nan=fl))
        out.append(D.CentrallyBin([0, 2, 4], "x", D.Count(), nan=fl))
        out.append(D.IrregularlyBin([1, 3], "x", D.Count(), nan=fl))
        out.append(D.Stack([1, 3], "x", D.Count(), nan=fl))
    out.append(D.Bin(2, 0, 4, "x", D.Count("sq")))
    out.append(D.Branch(D.Count(), D.Count("sq"), D.Bag("x", "N2")))
    # collections whose children have one type but read different fields (pairing them up wrongly shows)
    out.append(D.Label(a=D.Sum("x"), b=D.Sum("y"), c=D.Sum("x")))      # (not the selection field s: gamma does not map it)
    out.append(D.Label(p=D.Bin(2, 0, 4, "x"), q=D.Bin(2, 0, 4, "y")))
    out.append(D.UntypedLabel(a=D.Sum("x"), b=D.Sum("y"), n=D.Count()))
    out.append(D.Index(D.Average("x"), D.Average("y")))
    out.append(D.Bin(2, 0, 4, "x", D.Label(a=D.Minimize("x"), b=D.Minimize("y"))))
    out.append(D.Bag("x", "N2"))
    return out


def T3():
    S, C = D.Sum, D.Count
    return [
        D.Select("s", D.Bin(2, 0, 4, "x", D.Deviate("y"))),
        D.Categorize("c", D.SparselyBin(2, "x", D.Average("y"))),
        D.Bin(2, 0, 4, "x", D.Branch(S("y"), D.Minimize("y"))),
        D.Label(a=D.Bin(2, 0, 4, "x"), b=D.Bin(2, 0, 4, "y")),
        D.Fraction("s", D.Bin(2, 0, 4, "x", S("y"))),
        D.Stack([1, 3], "x", D.Select("s", D.Bin(2, 0, 4, "y"))),
        D.IrregularlyBin([1, 3], "x", D.IrregularlyBin([0, 2], "y")),
        D.Bin(2, 0, 4, "x", D.Bin(2, 0, 4, "y")),
        D.SparselyBin(2, "x", D.SparselyBin(2, "y")),
        D.SparselyBin(2, "x", D.Categorize("c", D.Maximize("y"))),
        D.CentrallyBin([0, 2, 4], "x", D.Stack([1], "y", D.Count())),
        D.Categorize("c", D.Categorize("c", S("x"))),
        D.Select("s", D.Select("s", D.Average("x"))),
        D.Fraction("s", D.Fraction("s", C())),
        D.Index(D.Bin(2, 0, 4, "x"), D.Bin(2, 0, 4, "x", S("y"))),
        D.Branch(D.Bin(2, 0, 4, "x"), D.SparselyBin(2, "y"), D.Categorize("c")),
        D.UntypedLabel(p=D.Deviate("x"), q=D.Bag("c", "S"), r=D.Stack([1, 3], "y")),
        D.Bin(2, 0, 4, "x", D.Bag("y", "N"), under=S("y"), over=D.Minimize("y"), nan=D.Bag("c", "S")),
        D.CentrallyBin([0, 2, 4], "x", D.Categorize("c", D.Deviate("y")), nan=S("y")),
        D.Stack([1, 3], "x", D.Bin(2, 0, 4, "y", D.Maximize("x"))),
        D.Select("s", D.Label(a=D.Maximize("x"), b=D.Maximize("y"))),
        D.Bin(3, -1, 2, "x", D.Fraction("s", S("y"))),
        D.SparselyBin(F(1, 2), "x", D.IrregularlyBin([1, 3], "y", D.Average("x")), origin=1),
        D.Categorize("c", D.Branch(C(), S("x"), D.Deviate("y"))),
        D.Label(a=D.Select("s", S("x")), b=D.Select("s", S("y"))),
        D.Index(D.Categorize("c"), D.Categorize("c")),
        D.Bin(2, 0, 4, "x", D.CentrallyBin([0, 2, 4], "y", D.Minimize("x"))),
        D.IrregularlyBin([1, 3], "x", D.SparselyBin(2, "y", S("x"))),
        D.Fraction("s", D.Categorize("c", D.Bag("x", "N"))),
        D.Stack([1, 3], "x", D.Stack([1, 3], "y")),
    ]


LEAF_MAKERS = [
    lambda r: D.Count(),
    lambda r: D.Sum(r.choice("xy")),
    lambda r: D.Average(r.choice("xy")),
    lambda r: D.Deviate(r.choice("xy")),
    lambda r: D.Minimize(r.choice("xy")),
    lambda r: D.Maximize(r.choice("xy")),
    lambda r: D.Bag(r.choice("xy"), "N"),
    lambda r: D.Bag("c", "S"),
]


def random_tree(rng, depth):
    """T4: a random tree of depth <= `depth` from the grammar"""
    if depth <= 1 or rng.random() < 0.25:
        return rng.choice(LEAF_MAKERS)(rng)
    sub = lambda: random_tree(rng, depth - 1)  # noqa: E731
    q = rng.choice("xy")
    k = rng.randrange(13)
    # flow positions hold something other than a Count now and then
    fl = lambda: (rng.choice(LEAF_MAKERS)(rng) if rng.random() < 0.3 else D.Count())  # noqa: E731
    if k == 0:
        return D.Bin(*rng.choice([(2, 0, 4), (4, 0, 4), (3, -1, 2)]), q, sub())
    if k == 1:
        return D.Bin(2, 0, 4, q, sub(), under=rng.choice(LEAF_MAKERS)(rng), nan=rng.choice(LEAF_MAKERS)(rng))
    if k == 2:
        return D.SparselyBin(rng.choice([1, 2, F(1, 2)]), q, sub(), origin=rng.choice([0, 1]), nan=fl())
    if k == 3:
        return D.CentrallyBin(rng.choice([[0, 2, 4], [1, 3], [-1, 1, 2, 5]]), q, sub(), nan=fl())
    if k == 4:
        return D.IrregularlyBin(rng.choice([[1, 3], [0], [0, 2, 4]]), q, sub(), nan=fl())
    if k == 5:
        return D.Stack(rng.choice([[1, 3], [0], [0, 2, 4], [3, 1], [2, 0, 4]]), q, sub(), nan=fl())
    if k == 6:
        return D.Categorize("c", sub())
    if k == 7:
        return D.Fraction("s", sub())
    if k == 8:
        return D.Select("s", sub())
    if k == 9:
        v = sub()
        return D.Label(a=v, b=v)
    if k == 10:
        return D.UntypedLabel(a=sub(), b=sub())
    if k == 11:
        v = sub()
        return D.Index(v, v)
    return D.Branch(sub(), sub())


def uses_mean(d):
    return any(n["k"] in ("Average", "Deviate") for _, n in D.walk(d))
