"""Attribution of failing clauses to properties, known findings, evidence and replay files.

The verdicts come from TLC (spec/HgTrace.tla): one record per failing clause of an event.  This
module only decides WHICH PROPERTY a failing (operation, clause) pair belongs to (DESIGN 4.3), cuts
a trace at its first failing event, matches violations against the committed known-findings file and
writes the evidence / replay artefacts.  It never decides whether a clause holds.
"""

import hashlib
import json
import os
import time

VERIF = os.path.dirname(os.path.dirname(os.path.abspath(__file__)))
FILL_OPS = ("Fill", "FillNoW", "Increment")
NEW_OPS = ("New", "NewDefault", "NewShared", "NewConv", "MH")
DERIVE = {"Add": "add", "Combine": "add", "Mul": "mul", "Zero": "zero", "Copy": "copy", "Pickle": "pickle",
          "Reload": "reload", "Immutable": "reload", "Histogram": "conv", "FractionBuild": "conv"}


def slot_tags(events, upto):
    """lineage tags of every slot before event index `upto` (0-based): how the object in the slot was
    derived (mul / reload / pickle ...), inherited through later operations"""
    tags = {}
    for ev in events[:upto]:
        if ev.get("out") != "ok":
            continue
        op = ev["op"]
        if op in NEW_OPS:
            tags[ev.get("s", ev.get("t"))] = set()
        elif op in DERIVE:
            src = set(tags.get(ev["a"], set()))
            if "b" in ev:
                src |= tags.get(ev["b"], set())
            tags[ev["t"]] = src | {DERIVE[op]}
        elif op == "IAdd":
            tags[ev["a"]] = set(tags.get(ev["a"], set())) | tags.get(ev["b"], set())
    return tags


def attribute(ev, cl, tags, trace):
    """set of property ids a failing clause `cl` of event `ev` is evidence against"""
    op = ev["op"]
    kind = trace.get("kind", "")
    if cl == "budget":
        return set()      # (a magnitude beyond what TLC's integers hold: the trace ends there, nobody's fault)
    if kind == "userfcn":
        return {"C17"}
    if kind == "edge":
        return {"C05"} if op == "EFill" else {"C13"}
    if kind == "expr" and op in FILL_OPS + ("Pickle", "New"):
        # aggregators whose quantities are string expressions / their equivalent functions: what they aggregate
        # is C17's claim (and C11's for the pickle clone)
        return {"C17"} | ({"C11"} if op == "Pickle" else set()) | ({"C02"} if op in FILL_OPS else set())
    if cl == "budget":
        return set()
    if kind == "argshare" and op in FILL_OPS + NEW_OPS and cl != "outcome":
        # one argument object given to two constructors: whatever goes wrong when one of the containers is filled is
        # state the constructors failed to separate
        return {"C06"}
    if cl == "wf":
        return {"C05"}
    opnd = set()
    keys = ("s",) if op in FILL_OPS + ("FillNumpy",) else ("a", "b")
    for key in keys:
        if key in ev:
            opnd |= tags.get(ev[key], set())
    lineage = set()
    if "mul" in opnd:
        lineage.add("C08")
    if "reload" in opnd:
        lineage.add("C04")
    if "pickle" in opnd:
        lineage.add("C11")
    silent = ev.get("out") == "ok"  # for an `outcome` failure: the call returned although it had to raise
    if op == "MH":
        return {"C06"} if cl == "noshare" else {"C14"}
    if kind == "frame" and op in ("Add", "Combine") and cl not in ("frame", "noshare"):
        return {"C14", "C01"}
    if op in ("Histogram", "StackBuild", "FractionBuild"):
        # conversions outside the listed properties: only their purity belongs to a property (C06: operands unchanged);
        # Fraction.build deliberately keeps its arguments, and the contents they produce are no property's claim
        if op == "Histogram":
            return {"C06"} if cl in ("frame", "noshare") else set()     # histogram() copies what it keeps
        return {"C06"} if cl == "frame" else set()
    if op in NEW_OPS:
        return {"C06"} if cl in ("noshare", "identity", "frame") else {"C02", "C06"}
    if op in FILL_OPS:
        faulty = bool(ev["x"].get("fa"))
        if cl in ("state", "sem", "shape"):
            # in a stream with failing records the aggregate of the surviving records is C12's claim as well
            return {"C02"} | lineage | ({"C12"} if kind == "failing" else set())
        if cl == "outcome":
            if silent:
                return {"C16"} if kind == "shared" else {"C12"}
            if kind == "shared":
                return {"C16"}
            return {"C05"} | lineage
        if cl == "unchanged":
            if kind == "shared":
                return {"C16"}
            return {"C12"} if faulty else {"C05"}
        if cl in ("frame", "noshare", "identity"):
            return {"C06"}
        if cl == "flags":
            return {"C01"}
    if op == "FillNumpy":
        if cl in ("frame", "noshare", "identity"):
            return {"C06"}
        if kind == "shared" and cl in ("outcome", "unchanged"):
            return {"C16"}
        return {"C03"} | lineage
    if op in ("Add", "Combine"):
        if cl in ("frame", "noshare"):
            return {"C06"}
        if cl == "unchanged" or (cl == "outcome" and silent):
            return {"C10"}
        return {"C01"} | lineage
    if op == "IAdd":
        if cl == "unchanged" or (cl == "outcome" and silent):
            return {"C10"}
        return {"C07"} | lineage
    if op == "Mul":
        if cl in ("frame", "noshare"):
            return {"C06"}
        return {"C08"} | (lineage - {"C08"})
    if op == "Zero":
        if cl in ("frame", "noshare"):
            return {"C06"}
        return {"C01"} | lineage
    if op == "Copy":
        if cl in ("frame", "noshare"):
            return {"C06"}
        return {"C01", "C06"} | lineage
    if op == "Pickle":
        return {"C11"} | ({"C06"} if cl == "noshare" else set())
    if op in ("Reload", "Immutable"):
        return {"C04"} | ({"C06"} if cl in ("noshare", "frame") else set())
    if op == "EqNear":
        return {"C06"} if cl in ("frame", "noshare") else {"C09"}
    if op == "Eq":
        # (a pickle clone that does not compare equal to its original is C11's claim as well)
        return {"C06"} if cl in ("frame", "noshare") else {"C09"} | (lineage & {"C11"})
    if op == "Read":
        if cl in ("frame", "noshare"):
            return {"C06"}
        if ev.get("which") == "toJson":
            return {"C04"} | lineage
        if ev.get("which") == "hash":
            return lineage & {"C08"}
        return {"C06"} | lineage
    if op in ("View", "CatView", "Grid2D"):
        # a view that changes the histogram it describes breaks C06 (read accessors are pure) and C13 (the views no
        # longer agree with what was filled)
        return {"C06", "C13"} if cl in ("frame", "noshare") else {"C13"}
    if op == "Acc":
        # the scalar look-up accessors: their purity is C06's claim; their values belong to no listed property (the
        # specification covers them all the same, see BEYOND below)
        if cl in ("frame", "noshare"):
            return {"C06"}
        # ... except on a scaled aggregator, which C08 promises to be a first-class aggregator like any other
        return lineage & {"C08"}
    if op == "Doc":
        return {"C06"} if cl in ("frame", "noshare") else {"C04"} | lineage
    if op == "FromDoc":
        return {"C15"}
    if op == "Drop":
        return {"C06"}
    return set()


class Finding:
    def __init__(self, pid, trace, l, clauses, devs, verdicts):
        self.pid, self.trace, self.l, self.clauses, self.devs, self.verdicts = pid, trace, l, clauses, devs, verdicts

    def signature(self):
        ev = self.trace["events"][self.l - 1]
        return "%s/%s/%s" % (ev["op"], "+".join(sorted(self.clauses)), self.trace.get("root", "?"))


def judge(pid, traces, verdicts):
    """Returns dict(findings=[Finding], foreign=Counter-like dict, judged_events, judged_traces)"""
    by_trace = {}
    for v in verdicts:
        by_trace.setdefault(v["t"], {}).setdefault(v["l"], []).append(v)
    findings, foreign = [], {}
    judged_events = 0
    for tr in traces:
        n = len(tr["events"])
        vs = by_trace.get(tr["id"])
        if not vs:
            judged_events += n
            continue
        # Walk the failing events in order.  The first one that is evidence against this property is the finding.
        # A foreign failure that corrupts no observable state (only the alias relation / object identity is wrong)
        # does not end the trace: the states that follow are still states the public API reached, and the property
        # is judged on them.  Any other foreign failure cuts the trace (the pool no longer means what the
        # specification assumes).
        done = False
        for l in sorted(vs):
            ev = tr["events"][l - 1]
            tags = slot_tags(tr["events"], l - 1)
            props = {}
            for v in vs[l]:
                for p in attribute(ev, v["cl"], tags, tr):
                    props.setdefault(p, []).append(v)
            if pid in props:
                cls = sorted({v["cl"] for v in props[pid]})
                devs = sorted({v.get("dev", "") for v in props[pid]})
                findings.append(Finding(pid, tr, l, cls, devs, vs[l]))
                judged_events += l
                done = True
                break
            if {v["cl"] for v in vs[l]} <= {"noshare", "identity"}:
                continue
            if ev["op"] == "Acc" and not props and {v["cl"] for v in vs[l]} <= {"flags", "outcome"}:
                # behaviour the specification describes beyond the listed properties: noted, never an alarm
                for v in vs[l]:
                    names = sorted(v["obs"][0]) if v.get("obs") else [ev.get("exc", "?")]
                    key = "beyond:Acc:%s:%s" % (tr.get("root", "?"), ",".join(map(str, names)))
                    foreign[key] = foreign.get(key, 0) + 1
                continue
            key = ",".join(sorted(props)) or "unattributed:%s:" % ev["op"] + ",".join(sorted({v["cl"] for v in vs[l]}))
            foreign[key] = foreign.get(key, 0) + 1
            judged_events += l
            done = True
            break
        if not done:
            judged_events += n
    return {"findings": findings, "foreign": foreign, "judged_events": judged_events, "judged_traces": len(traces)}


def write_replay(pid, finding):
    tr = finding.trace
    body = {
        "property": pid,
        "descr": "history recorded from the implementation; the event at index `failing_event` (1-based) violates "
                 "the listed clauses of the specification action (spec/HgTrace.tla)",
        "gamma": tr["gamma"],
        "nslots": tr["nslots"],
        "sem": tr["sem"],
        "sharing": tr.get("sharing", False),
        "kind": tr.get("kind", ""),
        "job": tr.get("job"),
        "ops": tr.get("ops"),
        "cfg": tr.get("cfg"),
        "events_before": [{k: v for k, v in e.items() if k not in ("ch", "post")} for e in tr["events"][max(0, finding.l - 6):finding.l - 1]]
        if tr.get("kind") == "edge" else None,
        "failing_event": finding.l,
        "clauses": finding.clauses,
        "event": tr["events"][finding.l - 1],
        "verdicts": finding.verdicts,
    }
    text = json.dumps(body, indent=1, sort_keys=True)
    h = hashlib.sha1(text.encode()).hexdigest()[:12]
    d = os.path.join(VERIF, "replays")
    os.makedirs(d, exist_ok=True)
    path = os.path.join(d, "%s-%s.json" % (pid, h))
    with open(path, "w") as f:
        f.write(text)
    return path


def load_known():
    path = os.path.join(VERIF, "known_findings.json")
    if not os.path.exists(path):
        return []
    with open(path) as f:
        return [k for k in json.load(f).get("findings", []) if k.get("status") == "open"]


def match_known(pid, finding, known):
    """a finding is `known` iff the specification explains EVERY failing clause attributed to the property by
    one named deviation (spec/HgTrace.tla, DevFor) that the committed known-findings file lists for it"""
    if len(finding.devs) != 1 or not finding.devs[0]:
        return None
    for k in known:
        if pid in k["properties"] and k["dev"] == finding.devs[0]:
            return k
    return None


def write_evidence(pid, tier, seed, level, coverage, wall, violations, assumptions):
    d = os.path.join(VERIF, "evidence")
    os.makedirs(d, exist_ok=True)
    body = {
        "property_id": pid,
        "tier": tier,
        "seed": seed,
        "level": level,
        "coverage": coverage,
        "assumptions": assumptions,
        "wall_s": round(wall, 2),
        "violations": violations,
    }
    with open(os.path.join(d, pid + ".json"), "w") as f:
        json.dump(body, f, indent=1, sort_keys=True)
