import argparse
import os
import sys


def main():
    ap = argparse.ArgumentParser()
    ap.add_argument("prop")
    ap.add_argument("--tier", default=os.environ.get("VERIF_TIER", "quick"), choices=["quick", "thorough"])
    ap.add_argument("--seed", type=int, default=int(os.environ.get("VERIF_SEED", "0")))
    ap.add_argument("--replay")
    a = ap.parse_args()
    from . import engine

    if a.replay:
        from . import replay

        sys.exit(replay.replay(a.prop, a.replay))
    sys.exit(engine.run_check(a.prop, a.tier, a.seed))


if __name__ == "__main__":
    main()
