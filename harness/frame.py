"""C14: concretisation of abstract frames and abstraction of the bin specifications that make_histograms returns.

Columns: f, g float (NaN allowed); i, j int; b bool; t timestamp.  Timestamps are abstracted to day counts since
2010-01-04 (day-aligned nanosecond values are exactly representable floats); every other column is mapped by the
identity.  No aggregator semantics here."""

from fractions import Fraction

from .absval import to_float, Q
from .build import Gamma

DTYPES = {"f": "float", "g": "float", "i": "int", "j": "int", "b": "bool", "t": "dt"}
NS_DAY = 86400 * 10 ** 9


def time_gamma():
    import pandas as pd

    return Gamma(Fraction(NS_DAY), Fraction(pd.Timestamp("2010-01-04").value))


def gamma_of(col):
    return time_gamma() if DTYPES[col] == "dt" else Gamma(1, 0)


def make_df(rows, cols, index=None):
    """index: None (default RangeIndex) or a list of row labels (chunks cut out of a larger frame keep their labels;
    filtered / shuffled frames have arbitrary labels)"""
    import numpy as np
    import pandas as pd

    data = {}
    for c in cols:
        dt = DTYPES[c]
        if dt == "float":
            data[c] = np.array([to_float(r[c]) for r in rows], dtype=np.float64)
        elif dt == "int":
            data[c] = np.array([r[c][0] for r in rows], dtype=np.int64)
        elif dt == "bool":
            data[c] = np.array([r[c] == "True" for r in rows], dtype=bool)
        else:
            base = pd.Timestamp("2010-01-04")
            data[c] = pd.to_datetime([base + pd.Timedelta(days=int(r[c][0])) for r in rows])
    df = pd.DataFrame(data)
    if index is not None:
        df.index = list(index)
    return df


POS_KEYS = ("origin", "low", "high", "edges", "centers", "thresholds", "bin_offset")
WIDTH_KEYS = ("binWidth", "bin_width")


def concretise_spec(spec, col):
    """abstract spec record -> the dict handed to make_histograms"""
    g = gamma_of(col)
    out = {}
    for k, v in spec.items():
        if k in WIDTH_KEYS:
            out[k] = g.width(v)
        elif k in POS_KEYS:
            out[k] = [g.pos(x) for x in v] if isinstance(v, list) else g.pos(v)
        else:
            out[k] = v
    return out


def abstract_spec(spec, col):
    """a returned spec dict -> abstract record (numbers as pairs, by key: widths scale, positions shift)"""
    from .project import _G

    P = _G(gamma_of(col))
    out = {}
    for k, v in spec.items():
        if k in WIDTH_KEYS:
            out[k] = list(P.width(v))
        elif k in POS_KEYS:
            out[k] = [list(P.pos(x)) for x in v] if isinstance(v, (list, tuple)) or hasattr(v, "tolist") and not isinstance(v, float) else list(P.pos(v))
        elif isinstance(v, bool):
            out[k] = v
        elif isinstance(v, (int, float)) or hasattr(v, "item"):
            out[k] = int(v) if k == "num" else list(Q(Fraction(float(v))))
        else:
            out[k] = v
    return out


def abstract_specs(bin_specs):
    """the whole returned bin_specs dict (column or 'a:b' feature -> dict or list of dicts)"""
    out = {}
    for name, s in bin_specs.items():
        cols = name.split(":")
        if isinstance(s, (list, tuple)):
            out[name] = [abstract_spec(x, c) if x else {} for x, c in zip(s, cols)]
        else:
            out[name] = abstract_spec(s, cols[0])
    return out
