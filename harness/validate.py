"""Record operation sequences on the real library and have TLC judge the recorded traces."""

import json
import os
import sys
import time
from concurrent.futures import ProcessPoolExecutor

from . import tlc
from .absval import to_json

REPO = os.environ.get("VERIF_REPO", "/repo")

TRACE_CFG = "SPECIFICATION Spec\nCHECK_DEADLOCK FALSE\n"


def _setup_path():
    if sys.path[0] != REPO:
        sys.path.insert(0, REPO)


def record_one(job):
    """job: dict(id, ops, gamma=(a,b), nslots, sem, sharing, budget).  Returns the trace dict."""
    _setup_path()
    from fractions import Fraction

    from .build import Gamma
    from .runner import Recorder

    from . import build as _B

    if job.get("recorder") == "edge":
        from . import edge

        return edge.record_one(dict(job, repo=REPO))
    if job.get("recorder") == "userfcn":
        from . import userfcn

        return userfcn.record_one(dict(job, repo=REPO))
    a, b = job["gamma"]
    g = Gamma(Fraction(a), Fraction(b))
    rec = Recorder(g, budget=job.get("budget", 1024), tmpdir=job.get("tmpdir"))
    _B.RECMODE[0] = job.get("rec", "dict")
    _B.CATMODE[0] = job.get("catmode", "bool")
    try:
        events = rec.run(job["ops"])
    finally:
        _B.RECMODE[0] = "dict"
        _B.CATMODE[0] = "bool"
    return {
        "id": job["id"],
        "nslots": job["nslots"],
        "sem": bool(job.get("sem", False)),
        "sharing": bool(job.get("sharing", False)),
        # histories with vectorised fills may carry zero-weight sparse bins: the multiset semantics is compared modulo them
        "strip": job.get("kind", "") in ("frame", "numpy", "shared"),
        "gamma": [str(a), str(b)],
        "catmode": job.get("catmode", "bool"),
        "events": events,
        "cut": rec.cut or "",
        "nops": len(job["ops"]),
    }


def _limit_memory():
    """a library call that tries to allocate absurd amounts (a view over the 2^64 indexes between two saturated sparse
    bins) must fail with MemoryError inside the recorder - an observable outcome - not take the machine down"""
    import resource

    lim = 6 << 30
    soft, hard = resource.getrlimit(resource.RLIMIT_AS)
    if hard == resource.RLIM_INFINITY or hard > lim:
        resource.setrlimit(resource.RLIMIT_AS, (lim, hard))


def record_all(jobs, nproc=14):
    if nproc <= 1 or len(jobs) < 8:
        nproc = 1
    chunk = max(1, len(jobs) // (nproc * 4))
    with ProcessPoolExecutor(max_workers=nproc, initializer=_limit_memory) as ex:
        return list(ex.map(record_one, jobs, chunksize=chunk))


def _scrub(v):
    # JsonDeserialize rejects null: absent optional arguments are logged as the string "none"
    if v is None:
        return "none"
    if isinstance(v, dict):
        return {k: _scrub(x) for k, x in v.items()}
    if isinstance(v, list):
        return [_scrub(x) for x in v]
    return v


def validate(traces, nproc=8, module="HgTrace", per_batch=None, timeout=1800):
    """run TLC over the traces (split into nproc batches).  Returns dict(verdicts, states, distinct,
    wall, errors, dropped)"""
    traces = [t for t in traces if t["events"]]
    if not traces:
        return {"verdicts": [], "states": 0, "distinct": 0, "wall": 0.0, "errors": [], "dropped": []}
    nb = max(1, min(nproc, len(traces) // 20 + 1))
    batches = [traces[i::nb] for i in range(nb)]
    sc = tlc.scratch()
    res_all = {"verdicts": [], "states": 0, "distinct": 0, "wall": 0.0, "errors": [], "dropped": []}
    t0 = time.time()
    pending = list(enumerate(batches))
    rounds = 0
    while pending and rounds < 6:
        rounds += 1
        jobs = []
        for bi, batch in pending:
            path = os.path.join(sc, "batch_%d_%d_%d.json" % (os.getpid(), bi, rounds))
            with open(path, "w") as f:
                json.dump({"traces": _scrub(batch)}, f)
            jobs.append(dict(module=module, cfg=TRACE_CFG, env={"TRACE_FILE": path}, workers=1, timeout=timeout))
        results = tlc.run_parallel(jobs, nproc)
        nxt = []
        for (bi, batch), r, j in zip(pending, results, jobs):
            os.unlink(j["env"]["TRACE_FILE"])
            if r["error"]:
                # an evaluation error (e.g. 32-bit overflow) is a machinery limit, never a verdict:
                # drop the offending trace and re-run the rest of the batch
                k = tlc.failed_tid(r["out"])
                if k is None or k > len(batch):
                    res_all["errors"].append(r["error"] + "\n" + r["out"][-3000:])
                    continue
                res_all["dropped"].append({"id": batch[k - 1]["id"], "error": r["error"]})
                rest = batch[: k - 1] + batch[k:]
                if rest:
                    nxt.append((bi, rest))
                continue
            res_all["verdicts"].extend(r["prints"])
            res_all["states"] += r["states"]
            res_all["distinct"] += r["distinct"]
        pending = nxt
    res_all["wall"] = time.time() - t0
    return res_all
