"""./check <ID> --replay <path>: re-executes the recorded history of a replay file on the current tree and lets TLC
judge it again.  Exit 1 (and a VIOLATION line) if a clause attributed to the property still fails, 0 otherwise."""

import json

from . import judge, validate


def replay(pid, path):
    with open(path) as f:
        rp = json.load(f)
    job = rp.get("job")
    if not job:
        print("replay file carries no job (design-level counterexample?): %s" % path)
        return 2
    job = dict(job, id=1)
    tr = validate.record_one(job)
    tr["kind"], tr["root"], tr["ops"], tr["job"] = job.get("kind", ""), job.get("root", "?"), job.get("ops", []), job
    val = validate.validate([tr], nproc=1, module=job.get("module", "HgTrace"))
    if val["errors"]:
        print("MACHINERY ERROR: " + val["errors"][0][:2000])
        return 2
    res = judge.judge(pid, [tr], val["verdicts"])
    known = judge.load_known()
    bad = [f for f in res["findings"] if judge.match_known(pid, f, known) is None]
    for f in res["findings"]:
        ev = tr["events"][f.l - 1]
        print("event %d (%s): failing clauses %s%s" % (f.l, ev["op"], f.clauses,
              "" if f in bad else "  [known finding]"))
    if bad:
        print("VIOLATION property=%s replay=%s" % (pid, path))
        return 1
    print("%s: the recorded history is a behaviour of the specification on this tree (%d events)" % (pid, len(tr["events"])))
    return 0
