"""Near-edge regime (C05 / C13): binning nodes with arbitrary float parameters, probed within a few ulps of every edge.

The harness (i) draws configurations (non-dyadic widths, large offsets), (ii) computes with exact Fraction arithmetic
on the ACTUAL float parameters where the edges are and which real-arithmetic bin every probe belongs to, and (iii)
logs what the library does.  The judgement (which bins are allowed, conservation, consistency of the views) is
spec/HgEdge.tla's.  Positions returned by accessors are logged as order-preserving ranks."""

import math
import sys
from fractions import Fraction as F

from .project import num as pnum

WIDTHS = [0.1, 1 / 3, 0.7, 1.0, 1e-3, 3.3, 0.01, 1e-7, 12345.678, 0.3, 2.5]
LOWS = [0.0, 0.1, -0.3, 1 / 3, 1e6, -1e-3, 2.5, -1e9, 1e-9, -0.9]


def _resolvable(cfg):
    """bins must be much wider than the floating-point resolution at their position (otherwise the configuration
    itself is degenerate and nothing is claimed)"""
    es = [float(e) for e in exact_edges(cfg)]
    pts = [float(c) for c in cfg.get("centers", [])]
    scale = max(abs(e) for e in es + pts) or 1.0
    gaps = [b - a for a, b in zip(es, es[1:])] + [b - a for a, b in zip(pts, pts[1:])]
    return all(g > 1e6 * math.ulp(scale) for g in gaps)


def near_any_edge(cfg, x, ulps=4):
    """is the float x within a few ulps of an edge of the configuration?"""
    if math.isnan(x) or math.isinf(x):
        return False
    edges = [float(e) for e in exact_edges(cfg)]
    # (measured on the scale of the whole configuration: the library computes x - low, (x - origin) / width, ... so
    # a value next to an edge at 0 is as "near" as one next to an edge at 1)
    tol = ulps * math.ulp(max([abs(x)] + [abs(f) for f in edges]))
    return any(abs(x - f) <= tol for f in edges)


def gen_config(rng):
    while True:
        cfg = _gen_config(rng)
        if _resolvable(cfg):
            return cfg


def _gen_config(rng):
    kind = rng.choice(["Bin", "Bin", "SparselyBin", "SparselyBin", "CentrallyBin", "IrregularlyBin", "Stack"])
    if kind == "Bin":
        n = rng.choice([1, 2, 3, 5, 7, 9, 10, 16, 33, 100, 200])
        low = rng.choice(LOWS)
        high = low + n * rng.choice(WIDTHS) if rng.random() < 0.7 else rng.choice([0.0, 0.3, 1.0, 5.55e-17, 7.0])
        if not high > low:
            high = low + 1.0
        return {"kind": kind, "n": n, "low": low, "high": high}
    if kind == "SparselyBin":
        return {"kind": kind, "n": 0, "width": rng.choice(WIDTHS), "origin": rng.choice(LOWS)}
    n = rng.choice([2, 3, 5, 8])
    start = rng.choice(LOWS)
    pts = [start]
    for _ in range(n - 1):
        pts.append(pts[-1] + rng.choice(WIDTHS))
    if kind == "CentrallyBin":
        return {"kind": kind, "n": n, "centers": pts}
    if kind == "IrregularlyBin":
        return {"kind": kind, "n": n + 1, "edges": pts}
    return {"kind": kind, "n": n + 1, "thresholds": pts}


def build(cfg):
    import histogrammar as hg

    q = eval("lambda x: x", {})
    k = cfg["kind"]
    # bins that only count, or bins with a content of their own (the vectorised fill then takes its generic path)
    v = (lambda: hg.Sum(eval("lambda x: x * 0.0 + 1.0", {}))) if cfg.get("child") == "sum" else hg.Count
    if k == "Bin":
        return hg.Bin(cfg["n"], cfg["low"], cfg["high"], q, v())
    if k == "SparselyBin":
        return hg.SparselyBin(cfg["width"], q, v(), origin=cfg["origin"])
    if k == "CentrallyBin":
        return hg.CentrallyBin(cfg["centers"], q, v())
    if k == "IrregularlyBin":
        return hg.IrregularlyBin(cfg["edges"], q, v())
    return hg.Stack(cfg["thresholds"], q, v())


def exact_edges(cfg):
    """internal edge positions in exact arithmetic on the float parameters"""
    k = cfg["kind"]
    if k == "Bin":
        lo, hi, n = F(cfg["low"]), F(cfg["high"]), cfg["n"]
        return [lo + (hi - lo) * i / n for i in range(n + 1)]
    if k == "SparselyBin":
        o, w = F(cfg["origin"]), F(cfg["width"])
        return [o + w * i for i in range(-3, 6)]
    if k == "CentrallyBin":
        cs = [F(c) for c in cfg["centers"]]
        return [(a + b) / 2 for a, b in zip(cs, cs[1:])]
    return [F(e) for e in (cfg.get("edges") or cfg.get("thresholds"))]


def classify(cfg, x):
    """(class, real-arithmetic bin) of float x"""
    if math.isnan(x):
        return "nan", 0
    k = cfg["kind"]
    if math.isinf(x) and k != "Bin":
        if k == "SparselyBin":
            return "sat", 0
        if k == "CentrallyBin":
            return "in", (len(cfg["centers"]) - 1 if x > 0 else 0)
        return "in", (len(cfg.get("edges") or cfg.get("thresholds")) if x > 0 else 0)
    if k == "Bin":
        if x < cfg["low"]:
            return "under", 0
        if x >= cfg["high"]:
            return "over", 0
        lo, hi = F(cfg["low"]), F(cfg["high"])
        return "in", math.floor(cfg["n"] * (F(x) - lo) / (hi - lo))
    if k == "SparselyBin":
        if math.isinf(x):
            return "sat", 0
        r = math.floor((F(x) - F(cfg["origin"])) / F(cfg["width"]))
        # an index beyond the 64-bit range saturates: the value still goes to exactly one (the first / last) bin
        return ("sat", 0) if abs(r) >= 2 ** 62 else ("in", r)
    if k == "CentrallyBin":
        cs = [F(c) for c in cfg["centers"]]
        for i in range(len(cs) - 1):
            if F(x) < (cs[i] + cs[i + 1]) / 2:
                return "in", i
        return "in", len(cs) - 1
    es = [F(e) for e in (cfg.get("edges") or cfg.get("thresholds"))]
    r = 0
    for i, e in enumerate(es):
        if F(x) >= e:
            r = i + 1
    return "in", r


def probes(rng, cfg, maxn=24):
    edges = exact_edges(cfg)
    mids = [(a + b) / 2 for a, b in zip(edges, edges[1:])]      # well inside a bin: between ADJACENT edges
    if len(edges) > 8:
        edges = [edges[0], edges[1], edges[-2], edges[-1]] + rng.sample(edges[2:-2], 4)
        mids = rng.sample(mids, 6)
    out = []
    for e in edges:
        f = float(e)
        cand = [f]
        up = dn = f
        for _ in range(2):
            up = math.nextafter(up, math.inf)
            dn = math.nextafter(dn, -math.inf)
            cand += [up, dn]
        for x in cand:
            if abs(x) < 1e300:
                out.append((x, True))
    for m in mids:
        out.append((float(m), False))
    rng.shuffle(out)
    out = out[:maxn]
    out.append((float("nan"), False))
    # magnitudes at the end of the float range (their quotient by a small bin width overflows) and the infinities
    for x in (1e308, -1e308, sys.float_info.max, float("inf"), float("-inf")):
        out.append((x, False))
    return out


def ranks(*seqs, tol=0.0):
    """order-preserving integer ranks of all numbers in the given sequences; values closer than `tol` (far below the
    bin spacing: different floating-point routes to the same edge) share a rank"""
    allv = sorted({float(v) for s in seqs for v in s})
    idx, rank, prev = {}, 0, None
    for v in allv:
        if prev is None or not (v - prev <= tol):
            rank += 1
        idx[v] = rank
        prev = v
    return [[idx[float(v)] for v in s] for s in seqs]


def observe(h, cfg):
    k = cfg["kind"]
    out = {"e": list(pnum(h.entries)), "under": [0, 1], "over": [0, 1], "nan": list(pnum(h.nanflow.entries)), "bins": {}}
    if k == "Bin":
        out["under"], out["over"] = list(pnum(h.underflow.entries)), list(pnum(h.overflow.entries))
        out["bins"] = {str(i): list(pnum(v.entries)) for i, v in enumerate(h.values)}
    elif k == "SparselyBin":
        out["bins"] = {str(int(i)): list(pnum(v.entries)) for i, v in h.bins.items()}
    else:
        out["bins"] = {str(i): list(pnum(v.entries)) for i, (c, v) in enumerate(h.bins)}
    return out


def record_one(job):
    repo = job.get("repo", "/repo")
    if sys.path[0] != repo:
        sys.path.insert(0, repo)
    import random

    rng = random.Random(job["seed"])
    cfg = job["cfg"]
    h = build(cfg)
    ps = probes(rng, cfg)
    events = []
    filled = []
    huge = False      # a sparse histogram that holds a saturated index is not asked for views (2^64 entries)
    nfill = job.get("nfill", 14)
    if cfg["kind"] == "Bin":
        # always: the last float below high and low itself (the two ends of the binned range)
        ps += [(cfg["high"], True), (math.nextafter(cfg["high"], -math.inf), True), (cfg["low"], True)]
    for step in range(nfill + (6 if cfg["kind"] == "Bin" else 0)):
        xid = rng.randrange(len(ps)) if step < nfill else len(ps) - 1 - (step - nfill) % 3
        x, near = ps[xid]
        vec = rng.random() < 0.35     # the same probe through the vectorised path (a one-row batch)
        if step >= nfill:
            vec = step - nfill >= 3     # (the ends: once row-wise, once vectorised)
        f32 = vec and rng.random() < 0.4 and not math.isnan(x) and abs(x) < 1e30
        if f32:
            # ... as a float32 array: the value the library receives is the float32 nearest to the probe
            import numpy as np

            x = float(np.float32(x))
            near = bool(near) or near_any_edge(cfg, x)
        cls, r = classify(cfg, x)
        w = rng.choice([1.0, 1.0, 2.0, 0.5])
        if abs(x) > 1e300:
            huge = True
        ev = {"op": "EFill", "xid": xid + 1, "cls": cls, "r": int(r), "near": bool(near), "w": list(pnum(w)),
              "x": repr(x), "vec": bool(vec), "f32": bool(f32), "out": "ok", "exc": ""}
        try:
            if vec:
                import numpy as np

                h.fill.numpy(np.array([x], dtype=np.float32 if f32 else np.float64), w)
            else:
                h.fill(x, w)
        except Exception as e:
            ev.update(out="exc", exc=type(e).__name__, msg=str(e)[:100])
        ev["post"] = observe(h, cfg)
        events.append(ev)
        if cls == "in":
            filled.append(xid)
        if huge and cfg["kind"] == "SparselyBin":
            continue
        if cfg["kind"] != "Stack" and rng.random() < 0.5 and filled:
            xi = rng.choice(filled)
            ev = {"op": "EXEnt", "xid": xi + 1, "x": repr(ps[xi][0]), "out": "ok", "exc": "", "res": [0, 1]}
            try:
                ev["res"] = list(pnum(h.bin_entries(xvalues=[ps[xi][0]])[0]))
            except Exception as e:
                ev.update(out="exc", exc=type(e).__name__, msg=str(e)[:100])
            events.append(ev)
        if cfg["kind"] != "Stack" and rng.random() < 0.35 and (cfg["kind"] != "SparselyBin" or len(h.bins) > 0):
            events.append(view_event(rng, h, cfg, ps))
    return {"id": job["id"], "kind": "edge", "bkind": cfg["kind"], "n": cfg["n"], "nprobes": len(ps), "events": events, "cfg": cfg,
            "ops": [], "gamma": ["-", "-"], "nslots": 1, "sem": False, "root": cfg["kind"], "cut": ""}


def view_event(rng, h, cfg, ps):
    """accessors for the full range or a sub-range whose bounds are near-edge probes"""
    k = cfg["kind"]
    full = rng.random() < 0.4
    lo = hi = None
    fin = sorted(x for x, _ in ps if not math.isnan(x) and abs(x) < 1e300)     # (query bounds: not the extreme probes)
    if not full:
        a, b = sorted(rng.sample(fin, 2))
        if a == b:
            full = True
        else:
            lo, hi = a, b
    es0 = [float(e) for e in exact_edges(cfg)]
    gap0 = min(b - a for a, b in zip(es0, es0[1:])) if len(es0) > 1 else 1.0
    # bins narrower than 1e-4 of their position: the input class of the known finding about np.isclose's relative tolerance
    fine = gap0 < 1e-4 * max(abs(e) for e in es0)
    ev = {"op": "EView", "full": full, "fine": bool(fine), "lo": repr(lo), "hi": repr(hi), "out": "ok", "exc": "", "overlap": True,
          "res": {"nb": 0, "ent": [], "edges": [], "centers": [], "fedges": [], "fent": []}}
    # does the query overlap the binned domain?  (exact comparison with the parameters; outside nothing is claimed)
    if not full:
        es = [float(e) for e in exact_edges(cfg)]
        mingap = min(b - a for a, b in zip(es, es[1:])) if len(es) > 1 else 1.0
        wide = (hi - lo) > 0.5 * mingap   # a query thinner than half a bin around one edge is a degenerate range
        if k == "Bin":
            ev["overlap"] = bool(wide and lo < cfg["high"] and hi > cfg["low"])
        elif k == "SparselyBin":
            lo_e = min(h.bins) * cfg["width"] + cfg["origin"]
            hi_e = (max(h.bins) + 1) * cfg["width"] + cfg["origin"]
            ev["overlap"] = bool(wide and lo < hi_e and hi > lo_e)
        else:
            ev["overlap"] = bool(wide)
    try:
        nb = int(h.num_bins(lo, hi))
        ent = [list(pnum(v)) for v in h.bin_entries(lo, hi)]
        edges = list(h.bin_edges(lo, hi))
        centers = list(h.bin_centers(lo, hi))
        if k == "SparselyBin" and not full:
            # the unbounded sparse grid: the reference partition is the grid over the union of the filled range and
            # the query (exact grid indexes from the library's own full-range accessors are not enough here)
            i0 = min(min(h.bins), classify(cfg, lo)[1] - 1)
            i1 = max(max(h.bins), classify(cfg, hi)[1] + 1)
            fedges = [i * cfg["width"] + cfg["origin"] for i in range(i0, i1 + 2)]
            fent = [list(pnum(h.bins[i].entries)) if i in h.bins else [0, 1] for i in range(i0, i1 + 1)]
        else:
            fedges = list(h.bin_edges())
            fent = [list(pnum(v)) for v in h.bin_entries()]
        fin = [v for v in fedges if not math.isinf(v)]
        gaps = [b - a for a, b in zip(fin, fin[1:]) if b > a]
        r_e, r_c, r_f = ranks(edges, centers, fedges, tol=(min(gaps) / 1000.0 if gaps else 0.0))
        ev["res"] = {"nb": nb, "ent": ent, "edges": r_e, "centers": r_c, "fedges": r_f, "fent": fent}
    except Exception as e:
        ev.update(out="exc", exc=type(e).__name__, msg=str(e)[:100])
    return ev
