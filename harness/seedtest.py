"""Evaluates a seeded defect (written by an independent sub-agent) against the checks.

usage: python -m harness.seedtest <seed-id> <property> <worktree-with-change-applied> <agent-output-dir> [check ids...]
Confirms the demonstration (fails with the change, passes without), the test-suite (same passing set as the
baseline), runs the listed checks (default: the property's own) with VERIF_REPO pointing at the changed tree, and
stores patch / demo / meta under /verif/seeded/<seed-id>/."""

import json
import os
import shutil
import subprocess
import sys
import xml.etree.ElementTree as ET

VERIF = os.path.dirname(os.path.dirname(os.path.abspath(__file__)))


def passing_tests(root):
    junit = "/tmp/seedtest_junit_%d.xml" % os.getpid()
    subprocess.run(["/venv/bin/python", "-m", "pytest", "-q", "-p", "no:cacheprovider", "--timeout=900",
                    "--continue-on-collection-errors", "--junitxml=" + junit, "tests"], cwd=root,
                   env=dict(os.environ, PYTHONPATH=root), stdout=subprocess.DEVNULL, stderr=subprocess.DEVNULL)
    out = set()
    for tc in ET.parse(junit).iter("testcase"):
        if not any(c.tag in ("failure", "error", "skipped") for c in tc):
            out.add(tc.get("classname") + "::" + tc.get("name"))
    os.unlink(junit)
    return out


def main():
    sid, prop, wt, outdir = sys.argv[1:5]
    checks = sys.argv[5:] or [prop]
    dst = os.path.join(VERIF, "seeded", sid)
    os.makedirs(dst, exist_ok=True)
    patch = subprocess.run(["git", "-C", wt, "diff"], stdout=subprocess.PIPE).stdout.decode()
    assert patch.strip(), "no change in worktree"
    with open(os.path.join(dst, "patch.diff"), "w") as f:
        f.write(patch)
    shutil.copy(os.path.join(outdir, "demo.py"), os.path.join(dst, "demo.py"))
    meta = json.load(open(os.path.join(outdir, "meta.json")))
    demo = os.path.join(dst, "demo.py")
    rc_with = subprocess.run(["/venv/bin/python", demo, wt], stdout=subprocess.DEVNULL, stderr=subprocess.DEVNULL,
                             env=dict(os.environ, PYTHONPATH=wt)).returncode
    rc_without = subprocess.run(["/venv/bin/python", demo, "/repo"], stdout=subprocess.DEVNULL, stderr=subprocess.DEVNULL,
                                env=dict(os.environ, PYTHONPATH="/repo")).returncode
    base = set(json.load(open("/root/.vp/BASELINE.json"))["stable_pass"])
    now = passing_tests(wt)
    results = {}
    for c in checks:
        p = subprocess.run([os.path.join(VERIF, "check"), c, "--tier", "quick"], cwd=VERIF,
                           env=dict(os.environ, VERIF_REPO=wt), stdout=subprocess.PIPE, stderr=subprocess.PIPE)
        out = p.stdout.decode()
        results[c] = {"exit": p.returncode, "violation_lines": out.count("VIOLATION property=" + c),
                      "summary": out.strip().splitlines()[-1] if out.strip() else p.stderr.decode()[-300:]}
    # the evidence/replay files written by those runs describe the mutant, not /repo: restore them
    subprocess.run(["git", "-C", VERIF, "checkout", "--", "evidence"], stdout=subprocess.DEVNULL, stderr=subprocess.DEVNULL)
    rec = {
        "id": sid,
        "property": prop,
        "summary": meta.get("summary"),
        "needs": meta.get("needs"),
        "files": meta.get("files"),
        "confirmed": {
            "demo_fails_with_change": rc_with != 0,
            "demo_passes_without_change": rc_without == 0,
            "baseline_tests_still_pass": sorted(base - now) == [],
            "missing_tests": sorted(base - now),
        },
        "ran": ["demo.py against the changed worktree and against /repo", "pytest tests (junit) in the changed worktree",
                "VERIF_REPO=<worktree> ./check <id> --tier quick"],
        "checks": results,
        "detected_by": [c for c, r in results.items() if r["exit"] == 1 and r["violation_lines"] > 0],
    }
    with open(os.path.join(dst, "meta.json"), "w") as f:
        json.dump(rec, f, indent=1)
    print(json.dumps(rec["confirmed"]), json.dumps({c: (r["exit"], r["violation_lines"]) for c, r in results.items()}))


if __name__ == "__main__":
    main()
