"""Projection pi: real histogrammar object -> abstract content (the record shape of HgTree).

A structural walk over PUBLIC attributes only.  Numbers go back through gamma^-1 using exact
Fraction arithmetic on the float's exact value and are then reconstructed as the nearest rational
with denominator <= 4096 (DESIGN 3.1): exactly representable quantities come back exactly; means and
variances come back exactly iff the code is right up to floating-point rounding.  pi also returns
object identities and the alias relation between live roots.  No semantics of the aggregators here.
"""

import math
from fractions import Fraction

from .absval import NAN, PINF, NINF, EMPTYNAME, keyn

MAXDEN = 4096


def rat(fr):
    """Fraction -> abstract pair via rational reconstruction"""
    if fr.denominator <= MAXDEN:
        return (fr.numerator, fr.denominator)
    r = fr.limit_denominator(MAXDEN)
    return (r.numerator, r.denominator)


def num(v):
    """weight-like real number (not mapped by gamma) -> abstract pair"""
    v = float(v)
    if math.isnan(v):
        return NAN
    if math.isinf(v):
        return PINF if v > 0 else NINF
    return rat(Fraction(v))


class _G:
    """the conversions of one gamma (positions, widths, weighted sums, variances)"""

    def __init__(self, g):
        self.g = g

    # positions: x_real = a*x + b
    def pos(self, v):
        v = float(v)
        if math.isnan(v):
            return NAN
        if math.isinf(v):
            return PINF if v > 0 else NINF
        return rat(self.g.inv_pos(Fraction(v)))

    def width(self, v):
        return rat(Fraction(float(v)) / self.g.a)

    # sum of w*q: s_real = a*s + b*e
    def wsum(self, s, e):
        s, e = float(s), float(e)
        if math.isnan(s):
            return NAN
        if math.isinf(s):
            return PINF if s > 0 else NINF
        if math.isnan(e) or math.isinf(e):
            return rat(Fraction(s))
        return rat((Fraction(s) - self.g.b * Fraction(e)) / self.g.a)

    def var(self, v):
        v = float(v)
        if math.isnan(v):
            return NAN
        if math.isinf(v):
            return PINF if v > 0 else NINF
        return rat(Fraction(v) / (self.g.a * self.g.a))

    def bagkey(self, key, rng):
        # by the key's own type (a Bag may hold keys that contradict its declared range; that must stay observable)
        if isinstance(key, tuple):
            return ",".join("nan" if c == "nan" else keyn(self.pos(c)) for c in key)
        if isinstance(key, str):
            return "nan" if (key == "nan" and rng != "S") else "s:" + key
        return keyn(self.pos(key))


class Pi:
    """gamma is either one map for the whole tree, or (DataFrame histograms, whose axes are different columns) one
    map per nesting depth: the node at depth k reads column k of the feature"""

    def __init__(self, g, by_depth=None):
        self.g = g
        self._one = _G(g)
        self._by_depth = [_G(x) for x in by_depth] if by_depth else None
        # single-gamma conversions stay available as attributes (views use them)
        self.pos, self.width = self._one.pos, self._one.width

    def name(self, h):
        q = getattr(h, "quantity", None)
        nm = getattr(q, "name", None)
        if nm is None:
            return ""
        return EMPTYNAME if str(nm) == "" else str(nm)

    def __call__(self, h, depth=0):
        k = type(h).__name__
        # specialised subclasses keep the factory name through .name
        k = getattr(h, "name", k)
        P = self._by_depth[min(depth, len(self._by_depth) - 1)] if self._by_depth else self._one
        R = lambda c: self(c, depth + 1)  # noqa: E731  (children read the next axis)
        S = lambda c: self(c, depth)  # noqa: E731  (collections and selections do not consume an axis)
        out = {"k": k, "e": num(h.entries)}
        if k == "Count":
            return out
        if k == "Sum":
            out["s"] = P.wsum(h.sum, h.entries)
        elif k == "Average":
            out["mean"] = P.pos(h.mean)
        elif k == "Deviate":
            out["mean"] = P.pos(h.mean)
            out["vte"] = P.var(h.varianceTimesEntries)
        elif k == "Minimize":
            out["min"] = P.pos(h.min)
        elif k == "Maximize":
            out["max"] = P.pos(h.max)
        elif k == "Bag":
            out["range"] = h.range
            vals = {}
            for key, w in h.values.items():
                kk = P.bagkey(key, h.range)
                while kk in vals:  # two distinct keys that mean the same value must stay observable
                    kk += "#dup"
                vals[kk] = num(w)
            out["vals"] = vals
        elif k == "Bin":
            out["lo"] = P.pos(h.low)
            out["hi"] = P.pos(h.high)
            out["vals"] = [R(v) for v in h.values]
            out["under"] = R(h.underflow)
            out["over"] = R(h.overflow)
            out["nan"] = R(h.nanflow)
        elif k == "SparselyBin":
            out["width"] = P.width(h.binWidth)
            out["origin"] = P.pos(h.origin)
            out["ctype"] = h.contentType
            out["bins"] = {str(int(i)): R(v) for i, v in h.bins.items()}
            out["nan"] = R(h.nanflow)
        elif k == "CentrallyBin":
            bins = h.bins if h.bins is not None else []  # `bins is None` is observable: it projects to no bins
            out["centers"] = [P.pos(c) for c, v in bins]
            out["bins"] = [R(v) for c, v in bins]
            out["nan"] = R(h.nanflow)
        elif k in ("IrregularlyBin", "Stack"):
            out["ths"] = [P.pos(c) for c, v in h.bins]
            out["bins"] = [R(v) for c, v in h.bins]
            out["nan"] = R(h.nanflow)
        elif k == "Categorize":
            out["ctype"] = h.contentType
            out["bins"] = {}
            for key, v in h.bins.items():
                kk = str(key)
                while kk in out["bins"]:
                    kk += "#dup"
                out["bins"][kk] = R(v)
        elif k == "Fraction":
            out["num"] = S(h.numerator)
            out["den"] = S(h.denominator)
        elif k == "Select":
            out["cut"] = S(h.cut)
        elif k in ("Label", "UntypedLabel"):
            out["pairs"] = {str(key): S(v) for key, v in h.pairs.items()}
            return out
        elif k in ("Index", "Branch"):
            out["vals"] = [S(v) for v in h.values]
            return out
        else:
            raise TypeError("unknown aggregator %r" % k)
        out["nm"] = self.name(h)
        return out


# ---------------------------------------------------------------------------------------------
# alias relation

_TEMPLATE_OWNERS = ("SparselyBin", "Categorize", "CentrallyBin")
_SKIP_ATTRS = ("fill", "plot", "quantity", "transform")


def mutable_nodes(root):
    """ids of all mutable nodes (Container instances, dicts, lists) reachable from root through
    __dict__, not descending into user functions, the fill/plot wrappers, or the `value` template of
    sparse containers (an unfilled template may legitimately be shared)."""
    from histogrammar.defs import Container

    seen, out, stack = set(), {}, [root]
    while stack:
        o = stack.pop()
        if id(o) in seen:
            continue
        seen.add(id(o))
        if isinstance(o, Container):
            out[id(o)] = o
            for k, v in o.__dict__.items():
                if k in _SKIP_ATTRS:
                    continue
                if k == "value" and getattr(o, "name", "") in _TEMPLATE_OWNERS:
                    continue
                stack.append(v)
        elif isinstance(o, dict):
            out[id(o)] = o
            stack.extend(o.values())
        elif isinstance(o, list):
            out[id(o)] = o
            stack.extend(o)
        elif isinstance(o, tuple):
            stack.extend(o)
    return out


def shares(objs):
    """objs: dict slot -> live root.  Returns sorted list of [i, j] (i < j) sharing a mutable node.
    Two slots holding the very same root object (after +=, or fill returning self) are not a share."""
    nodes = {s: set(mutable_nodes(o)) for s, o in objs.items()}
    out = []
    ss = sorted(objs)
    for i, a in enumerate(ss):
        for b in ss[i + 1:]:
            if objs[a] is objs[b]:
                continue
            if nodes[a] & nodes[b]:
                out.append([a, b])
    return out
