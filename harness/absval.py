"""Abstract values shared by the TLA+ specification and the harness.

Numbers of the model are pairs (n, d): finite p/q as (p, q) with q > 0 in lowest terms,
NaN = (0, 0), +inf = (1, 0), -inf = (-1, 0).  This module only converts between
representations (Fraction / float / JSON / TLA+ text); it contains no semantics of the
aggregators.
"""

import math
from fractions import Fraction

NAN = (0, 0)
# the abstract value of a quantity name the user explicitly set to the empty string ('' itself means: no name)
EMPTYNAME = "EMPTY_NAME"
PINF = (1, 0)
NINF = (-1, 0)


def Q(v):
    """abstract number from int / Fraction / 'nan' / 'inf' / '-inf' / pair"""
    if isinstance(v, tuple):
        return v
    if isinstance(v, str):
        return {"nan": NAN, "inf": PINF, "-inf": NINF}[v]
    if isinstance(v, bool):
        return (int(v), 1)
    if isinstance(v, int):
        return (v, 1)
    if isinstance(v, Fraction):
        return (v.numerator, v.denominator)
    if isinstance(v, float):
        if math.isnan(v):
            return NAN
        if math.isinf(v):
            return PINF if v > 0 else NINF
        f = Fraction(v)
        return (f.numerator, f.denominator)
    raise TypeError(v)


def is_fin(p):
    return p[1] != 0


def frac(p):
    assert p[1] != 0
    return Fraction(p[0], p[1])


def to_float(p):
    if p[1] == 0:
        return float("nan") if p[0] == 0 else (float("inf") if p[0] > 0 else float("-inf"))
    return p[0] / p[1]


def keyn(p):
    """HgNum!KeyN"""
    return "nan" if p == NAN else "%d/%d" % (p[0], p[1])


def to_json(v):
    """abstract value -> JSON-able (tuples become lists)"""
    if isinstance(v, tuple) or isinstance(v, list):
        return [to_json(x) for x in v]
    if isinstance(v, dict):
        return {k: to_json(x) for k, x in v.items()}
    return v


def from_json(v):
    if isinstance(v, list):
        if len(v) == 2 and all(isinstance(x, int) and not isinstance(x, bool) for x in v):
            return (v[0], v[1])
        return [from_json(x) for x in v]
    if isinstance(v, dict):
        return {k: from_json(x) for k, x in v.items()}
    return v


def _ident(s):
    return s.isidentifier() and s.isascii() and not s.startswith("_")


def to_tla(v):
    """abstract value -> TLA+ expression text"""
    if isinstance(v, bool):
        return "TRUE" if v else "FALSE"
    if isinstance(v, int):
        return str(v) if v >= 0 else "(%d)" % v
    if isinstance(v, str):
        return '"' + v.replace("\\", "\\\\").replace('"', '\\"') + '"'
    if isinstance(v, (tuple, list)):
        return "<<" + ", ".join(to_tla(x) for x in v) + ">>"
    if isinstance(v, dict):
        if not v:
            return "[x \\in {} |-> 0]"
        if all(_ident(k) for k in v):
            return "[" + ", ".join("%s |-> %s" % (k, to_tla(x)) for k, x in v.items()) + "]"
        return "(" + " @@ ".join("%s :> %s" % (to_tla(k), to_tla(x)) for k, x in v.items()) + ")"
    raise TypeError(repr(v))


def max_mag(v):
    """largest |numerator| or denominator occurring in an abstract value"""
    if isinstance(v, tuple) and len(v) == 2 and all(isinstance(x, int) for x in v):
        return max(abs(v[0]), v[1])
    if isinstance(v, (list, tuple)):
        return max([max_mag(x) for x in v] + [0])
    if isinstance(v, dict):
        return max([max_mag(x) for x in v.values()] + [0])
    return 0
