#!/bin/sh
# multi-seed sweep of the quick checks (robustness against seed-dependent false alarms); prints one line per run
cd "$(dirname "$0")/.."
for seed in "$@"; do
  for p in C01 C02 C03 C04 C05 C06 C07 C08 C09 C10 C11 C12 C13 C14 C15 C16 C17; do
    out=$(./check $p --tier quick --seed $seed 2>&1); rc=$?
    echo "seed=$seed $p rc=$rc $(echo "$out" | grep -c '^VIOLATION') viol :: $(echo "$out" | tail -1 | cut -c1-160)"
    if [ $rc -ne 0 ]; then echo "$out" | grep -v '^Parsing\|^Semantic\|^Linting' | tail -15 | cut -c1-300; fi
  done
done
