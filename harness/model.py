"""Generates model-checking instances of spec/HgSystem.tla for a descriptor and runs TLC on them."""

import re
from fractions import Fraction as F

from . import desc as D, tlc
from .absval import Q, NAN, PINF, NINF, to_tla

INV_SEM = ["SemInv", "WFInv", "Comm", "Unit", "RoundTrip"]
INV_LAWS = ["Assoc", "ScaleLaws", "NullWeights", "FillCommutes", "BatchSplit", "ViewsAgree"]
INV_DOC = ["ParseSound", "RoundTrip"]
INVARIANTS = INV_SEM


def alphabet(d, size="small"):
    """the critical data alphabet of descriptor d: one datum per routing class of every field in use"""
    fields = sorted(D.numeric_fields(d))
    uses_s = any(n.get("q") == "s" for _, n in D.walk(d))
    uses_c = any(n.get("q") == "c" for _, n in D.walk(d))

    def vals(field, primary):
        crit = sorted(D.critical_values(d, field))
        if primary:
            out = set(crit)
            if crit:
                out |= {crit[0] - 1, crit[-1] + 1}
                out |= {(a + b) / 2 for a, b in zip(crit, crit[1:])}
            else:
                out |= {F(-1), F(0), F(2), F(1, 2)}
            out = [Q(v) for v in sorted(out)]
            if size == "small" and len(out) > 6:
                # keep both ends, every edge and a few interior points
                keep = set(crit) | {crit[0] - 1, crit[-1] + 1}
                out = [Q(v) for v in sorted(keep)][:7]
            return out + [NAN, PINF, NINF]
        return [Q(1), Q(3), NAN] if size == "small" else [Q(-1), Q(1), Q(3), NAN, PINF]

    xs = vals("x", True) if "x" in fields else [Q(1)]
    ys = vals("y", "x" not in fields) if "y" in fields else [Q(1)]
    ss = ([Q(1), Q(0), Q(2), NAN] if size == "small" else [Q(1), Q(0), Q(2), Q(F(1, 2)), Q(-1), NAN]) if uses_s else [Q(1)]
    cs = (["a", "b", "None"] if size == "small" else ["a", "b", "entries", "NaN", "None"]) if uses_c else ["a"]
    data = []
    for x in xs:
        for y in ys:
            for s in ss:
                for c in cs:
                    data.append({"x": x, "y": y, "s": s, "c": c, "fa": "", "fm": ""})
    return data


def mc_module(name, d, data, weights, factors):
    lines = ["---- MODULE %s ----" % name, "EXTENDS HgSystem, Json",
             "mcD == " + to_tla(d),
             "mcData == {" + ",\n           ".join(to_tla(x) for x in data) + "}",
             "mcW == {" + ", ".join(to_tla(w) for w in weights) + "}",
             "mcFs == {" + ", ".join(to_tla(f) for f in factors) + "}",
             "Emit == (nf + no < EmitAt) \\/ PrintT(ToJson(hist))",
             "===="]
    return "\n".join(lines) + "\n"


def mc_cfg(nslots, maxfills, maxops, late, invariants, emit=False, frame=True):
    c = ["CONSTANTS", " D <- mcD", " Data <- mcData", " W <- mcW", " Fs <- mcFs", " NSlots = %d" % nslots,
         " MaxFills = %d" % maxfills, " MaxOps = %d" % maxops, " LateFills = %s" % ("TRUE" if late else "FALSE"),
         "SPECIFICATION Spec", "CHECK_DEADLOCK FALSE"]
    if not emit:
        c.append("VIEW view")
    for inv in invariants:
        c.append("INVARIANT " + inv)
    if emit:
        c.append("INVARIANT Emit")
    if frame and not emit:
        c.append("PROPERTY FrameOK")
    return "\n".join(c) + "\n"


def subsample(data, cap):
    """deterministic thinning that keeps the first and last element and spreads the rest"""
    if len(data) <= cap:
        return data
    idx = sorted({round(i * (len(data) - 1) / (cap - 1)) for i in range(cap)})
    return [data[i] for i in idx]


def check_design(d, name="MCdesign", size="small", nslots=3, maxfills=2, maxops=2, late=False,
                 weights=None, factors=None, invariants=None, workers=8, timeout=1500, data=None, cap=None):
    """exhaustive TLC run of HgSystem for descriptor d; returns the tlc.run result"""
    data = data or alphabet(d, size)
    if cap:
        data = subsample(data, cap)
    weights = weights or [Q(1), Q(F(1, 2)), Q(0)]
    factors = factors or [Q(2), Q(F(1, 2)), Q(0)]
    inv = invariants if invariants is not None else INVARIANTS
    text = mc_module(name, d, data, weights, factors)
    r = tlc.run(name, mc_cfg(nslots, maxfills, maxops, late, inv), workers=workers, timeout=timeout, text=text,
                args=["-coverage", "0"] if False else [])
    r["ndata"] = len(data)
    return r


def apalache_inductive(main, modules, timeout=600):
    """Apalache: Init => IndInv (length 0), IndInv /\\ NextU => IndInv' (length 1), and - as a sanity check of the
    set-up - a plainly false invariant must be refuted.  Returns a tlc.run-shaped result."""
    import os
    import shutil
    import subprocess
    import time

    sc = os.path.join(tlc.scratch(), "apa_%d_%d" % (os.getpid(), int(time.time() * 1000) % 100000))
    os.makedirs(sc, exist_ok=True)
    for m in modules:
        shutil.copy(os.path.join(tlc.SPEC, m), sc)
    t0 = time.time()
    out, err = "", None

    def run(args):
        p = subprocess.run(["apalache-mc", "check", "--out-dir=" + os.path.join(sc, "out")] + args + [main + ".tla"], cwd=sc,
                           stdout=subprocess.PIPE, stderr=subprocess.STDOUT, timeout=timeout)
        return p.returncode, p.stdout.decode(errors="replace")

    try:
        steps = [("base", ["--init=Init", "--inv=IndInv", "--next=NextU", "--length=0"], 0),
                 ("step", ["--init=IndInit", "--inv=IndInv", "--next=NextU", "--length=1"], 0),
                 ("sanity", ["--init=IndInit", "--inv=WrongInv", "--next=NextU", "--length=1"], 12)]
        for name, args, want in steps:
            rc, o = run(args)
            out += "== %s (exit %d)\n%s\n" % (name, rc, o[-1500:])
            if rc != want:
                if name != "sanity" and rc == 12:
                    err = "Invariant IndInv is violated (Apalache, %s case)" % name
                else:
                    err = "apalache %s: unexpected exit code %d" % (name, rc)
                break
    except Exception as e:  # noqa: BLE001
        err = "apalache could not be run: %r" % (e,)
    shutil.rmtree(sc, ignore_errors=True)
    return {"out": out, "prints": [], "states": 0, "distinct": 0, "wall": time.time() - t0, "error": err}


def simulate(d, num, depth_fills, depth_ops, seed, name="MCsim", size="full", nslots=3, late=True,
             weights=None, factors=None, timeout=600, data=None):
    """random behaviours of HgSystem (tlc -simulate); returns list of operation sequences"""
    data = data or alphabet(d, size)
    if len(data) > 14:
        # a random walk enumerates every successor of every state it visits: thin the alphabet (seeded)
        import random as _r

        data = _r.Random(seed).sample(data, 14)
    weights = weights or [Q(1), Q(2), Q(F(1, 2)), Q(0), Q(-1), NAN]
    factors = factors or [Q(F(1, 2)), Q(2), Q(3), Q(1), Q(0), NAN, Q(-1)]
    text = mc_module(name, d, data, weights, factors)
    depth = depth_fills + depth_ops
    r = tlc.run(name, mc_cfg(nslots, depth_fills, depth_ops, late, [], emit=True), workers=1, timeout=timeout, text=text,
                args=["-simulate", "num=%d" % num, "-depth", str(depth + 1), "-seed", str(seed)])
    return r
