#!/bin/sh
# every thorough check once (or the ones named), one line per run plus the tail of any that fails
cd "$(dirname "$0")/.."
[ $# -gt 0 ] || set -- C01 C02 C03 C04 C05 C06 C07 C08 C09 C10 C11 C12 C13 C14 C15 C16 C17
for p in "$@"; do
  out=$(./check $p --tier thorough 2>&1); rc=$?
  echo "$p rc=$rc $(echo "$out" | grep -c '^VIOLATION') viol :: $(echo "$out" | tail -1 | cut -c1-400)"
  if [ $rc -ne 0 ]; then echo "$out" | grep -v '^Parsing\|^Semantic\|^Linting' | tail -25 | cut -c1-400; fi
done
