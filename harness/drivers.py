"""Seeded drivers: produce operation sequences (abstract arguments only) for the recorder.

All random choices come from the `random.Random` instance passed in (seeded from VERIF_SEED).
The alphabets are the model's critical values (DESIGN 3.1): every edge / centre / midpoint /
threshold of the tree, points strictly inside and outside, NaN and +-inf; weights incl. zero,
negative and NaN.
"""

from fractions import Fraction as F

from . import desc as D
from .absval import Q, NAN, PINF, NINF

GRID = [F(-2), F(-1), F(0), F(1), F(2), F(3), F(4), F(5), F(1, 2), F(5, 2)]
SPECIALS = [NAN, PINF, NINF]
WEIGHTS = [Q(1), Q(1), Q(1), Q(2), Q(F(1, 2)), Q(0), Q(-1), NAN]
POSWEIGHTS = [Q(1), Q(1), Q(2), Q(F(1, 2))]
SELS = [Q(1), Q(1), Q(0), Q(2), Q(F(1, 2)), Q(-1), NAN]
# (among the categories: the empty string; not the string "nan", which string-valued Bags order specially)
CATS = ["a", "b", "entries", "NaN", "None", ""]
CATS_NP = ["a", "b", "entries", "NaN", ""]
BOOLCATS = ["True", "False", "None"]
FACTORS = [Q(F(1, 2)), Q(2), Q(3), Q(1), Q(0), NAN, Q(-1), Q(F(1, 4))]


def positions(d, field):
    vals = set(GRID) | D.critical_values(d, field)
    return [Q(v) for v in sorted(vals)] + SPECIALS


class Alphabet:
    def __init__(self, d, cats=CATS, specials_rate=0.25, finite_weights=False):
        self.xs = positions(d, "x")
        self.ys = positions(d, "y")
        self.cats = cats
        self.crit_x = [Q(v) for v in sorted(D.critical_values(d, "x"))]
        self.crit_y = [Q(v) for v in sorted(D.critical_values(d, "y"))]

    def num(self, rng, vals, crit):
        r = rng.random()
        if crit and r < 0.45:
            return rng.choice(crit)
        if r < 0.60:
            return rng.choice(SPECIALS)
        return rng.choice(vals)

    def datum(self, rng):
        return {
            "x": self.num(rng, self.xs, self.crit_x),
            "y": self.num(rng, self.ys, self.crit_y),
            "s": rng.choice(SELS),
            "c": rng.choice(self.cats),
            "fa": "",
            "fm": "",
        }

    def weight(self, rng):
        return rng.choice(WEIGHTS)


def acc_op(rng, d, a, al):
    """probe the scalar look-up accessors of slot `a` (root kind d["k"]); spec: HgViews!AccExpect"""
    k = d["k"]
    op = {"op": "Acc", "a": a, "xs": [], "ks": []}
    n = rng.randint(0, 3)
    if k in ("Bin", "CentrallyBin"):
        op["xs"] = [rng.choice(al.xs) for _ in range(n)]
    elif k == "SparselyBin":
        fin = [v for v in al.xs if v[1] != 0]
        op["xs"] = [rng.choice(fin) for _ in range(n)] if fin else []
        op["ks"] = [rng.randint(-4, 6) for _ in range(rng.randint(0, 3))]
    elif k == "Categorize":
        op["ks"] = rng.sample(["a", "b", "zz", "NaN", "entries", "None"], rng.randint(0, 3))
    elif k in ("Label", "UntypedLabel"):
        op["ks"] = rng.sample(sorted(d["pairs"]) + ["zz", "entries"], rng.randint(0, 2))
    elif k in ("Index", "Branch"):
        op["ks"] = [rng.randint(-1, len(d["vals"]) + 1) for _ in range(rng.randint(0, 3))]
    return op


def gen_generic(rng, d, nslots=3, nev=14, ops=None, cats=CATS, init=2):
    """a history over a pool of `nslots` aggregators that all share descriptor d"""
    ops = ops or {"Fill": 50, "Add": 12, "IAdd": 8, "Mul": 8, "Zero": 4, "Copy": 6}
    names = list(ops)
    wts = [ops[n] for n in names]
    al = Alphabet(d, cats)
    out = []
    live = []
    mutable = set()
    for s in range(1, init + 1):
        out.append({"op": "New", "s": s, "d": d})
        live.append(s)
        mutable.add(s)
    slots = list(range(1, nslots + 1))
    while len(out) < nev:
        op = rng.choices(names, wts)[0]
        if op in ("Fill", "FillNoW", "Increment"):
            cand = [s for s in live if s in mutable]
            if not cand:
                continue
            s = rng.choice(cand)
            if op == "Fill":
                out.append({"op": "Fill", "s": s, "x": al.datum(rng), "w": al.weight(rng)})
            else:
                out.append({"op": op, "s": s, "x": al.datum(rng)})
        elif op == "FillNumpy":
            cand = [s for s in live if s in mutable]
            if not cand:
                continue
            s = rng.choice(cand)
            n = rng.choice([0, 1, 2, 3, 4])
            rows = [al.datum(rng) for _ in range(n)]
            wf = rng.choice(["one", "one", "scalar", "array"])
            ev = {"op": "FillNumpy", "s": s, "rows": rows, "wf": wf}
            if wf == "scalar":
                ev["wsc"] = rng.choice(POSWEIGHTS)
            elif wf == "array":
                ev["ws"] = [rng.choice(POSWEIGHTS + [Q(0)]) for _ in range(n)]
            out.append(ev)
        elif op in ("Add", "Combine"):
            a, b, t = rng.choice(live), rng.choice(live), rng.choice(slots)
            out.append({"op": op, "t": t, "a": a, "b": b})
            if t not in live:
                live.append(t)
            # a sum with a reloaded (immutable) operand may contain immutable parts (bins adopted from it):
            # whether it can be filled is not specified by any property, so the driver does not fill it
            (mutable.add if (a in mutable and b in mutable) else mutable.discard)(t)
        elif op == "IAdd":
            a, b = rng.choice(live), rng.choice(live)
            out.append({"op": "IAdd", "a": a, "b": b})
            if b not in mutable:
                mutable.discard(a)
        elif op == "Mul":
            a, t = rng.choice(live), rng.choice(slots)
            f = rng.choice(FACTORS)
            if D.has_sq(d) and t not in live:
                continue  # the call raises (transformed Count): do not rely on its result slot
            ev = {"op": "Mul", "t": t, "a": a, "f": f, "side": rng.choice(["l", "r"])}
            if f[1] == 1 and rng.random() < 0.5:
                ev["int"] = True
            out.append(ev)
            if t not in live:
                live.append(t)
            if D.has_sq(d):
                # the call raises for f > 0 (transformed Count): the slot then keeps what it held
                (mutable.add if (a in mutable and t in mutable) else mutable.discard)(t)
            else:
                (mutable.add if a in mutable else mutable.discard)(t)
        elif op in ("Zero", "Copy", "Pickle"):
            a, t = rng.choice(live), rng.choice(slots)
            out.append({"op": op, "t": t, "a": a})
            if t not in live:
                live.append(t)
            (mutable.add if a in mutable else mutable.discard)(t)
        elif op in ("Reload", "Immutable"):
            a, t = rng.choice(live), rng.choice(slots)
            ev = {"op": op, "t": t, "a": a}
            if op == "Reload":
                ev["via"] = rng.choice(["dict", "string", "file"])
            out.append(ev)
            if t not in live:
                live.append(t)
            mutable.discard(t)
        elif op == "Histogram":
            if d["k"] not in ("Bin", "SparselyBin"):
                continue
            a, t = rng.choice(live), nslots + 1     # (a scratch slot: its descriptor differs from the pool's)
            out.append({"op": "Histogram", "t": t, "a": a})
            out.append({"op": "Drop", "s": t})
        elif op in ("StackBuild", "FractionBuild"):
            # these keep (some of) their arguments inside the result by design: build, observe, drop
            t = nslots + 1
            if op == "StackBuild":
                out.append({"op": "StackBuild", "t": t, "srcs": [rng.choice(live) for _ in range(rng.choice([1, 2, 3]))]})
            else:
                out.append({"op": "FractionBuild", "t": t, "a": rng.choice(live), "b": rng.choice(live)})
            out.append({"op": "Drop", "s": t})
        elif op == "Read":
            if rng.random() < 0.35:
                out.append(acc_op(rng, d, rng.choice(live), al))
                continue
            out.append({"op": "Read", "a": rng.choice(live), "which": rng.choice(["toJson", "repr", "hash", "children", "ndim"])})
        elif op == "Eq":
            a, b = rng.choice(live), rng.choice(live)
            out.append({"op": "Eq", "a": a, "b": b, "must": a == b})
    return out
