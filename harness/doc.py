"""Generic tagging of JSON values for the document model of spec/HgDoc.tla.

tag() knows nothing about primitives.  Its only format rule: a non-empty list whose elements are all
objects with exactly the keys {"w", "v"} (the `values` of a Bag) becomes an unordered map keyed by
the canonical text of `v`, because the order of that list is a sort the specification does not
reproduce.  Numbers become exact rationals (reconstructed with denominator <= 4096, like pi);
documents are only abstracted under the identity gamma.
"""

import math
from fractions import Fraction

from .absval import NAN, PINF, NINF, EMPTYNAME, keyn
from .project import rat


def _num(v):
    if isinstance(v, float):
        if math.isnan(v):
            return NAN
        if math.isinf(v):
            return PINF if v > 0 else NINF
    return rat(Fraction(v))


def _bagkey(v):
    if isinstance(v, bool):
        return None
    if isinstance(v, (int, float)):
        return keyn(_num(v))
    if isinstance(v, str):
        if v == "nan":
            return "nan"
        if v in ("inf", "-inf"):
            return keyn(PINF if v == "inf" else NINF)
        return "s:" + v
    if isinstance(v, list) and v and all(isinstance(c, (int, float, str)) and not isinstance(c, bool) for c in v):
        ks = []
        for c in v:
            if isinstance(c, str):
                if c not in ("nan", "inf", "-inf"):
                    return None
                ks.append("nan" if c == "nan" else keyn(PINF if c == "inf" else NINF))
            else:
                ks.append(keyn(_num(c)))
        return ",".join(ks)
    return None


def _namekey(k):
    return isinstance(k, str) and (k == "name" or k.endswith(":name"))


def tag(v, bagmap=True):
    if isinstance(v, dict):
        # (an explicit empty quantity name is a name: the model's "" means `no name`, absval.EMPTYNAME this one)
        return {"j": "obj", "v": {str(k): ({"j": "str", "v": EMPTYNAME} if x == "" and isinstance(x, str) and _namekey(k)
                                           else tag(x, bagmap)) for k, x in v.items()}}
    if isinstance(v, (list, tuple)):
        if bagmap and v and all(isinstance(e, dict) and set(e) == {"w", "v"} for e in v):
            keys = [_bagkey(e["v"]) for e in v]
            if None not in keys and len(set(keys)) == len(keys):
                return {"j": "bagvals", "v": {k: tag(e["w"], bagmap) for k, e in zip(keys, v)}}
        return {"j": "arr", "v": [tag(x, bagmap) for x in v]}
    if isinstance(v, bool):
        return {"j": "bool", "v": v}
    if v is None:
        return {"j": "null", "v": "null"}
    if isinstance(v, str):
        return {"j": "str", "v": v}
    if isinstance(v, (int, float)):
        p = _num(v)
        return {"j": "num", "v": [p[0], p[1]]}
    raise TypeError(repr(v))


def untag(t):
    j, v = t["j"], t["v"]
    if j == "obj":
        return {k: ("" if _namekey(k) and x == {"j": "str", "v": EMPTYNAME} else untag(x))
                for k, x in (v.items() if isinstance(v, dict) else [])}
    if j == "arr":
        return [untag(x) for x in v]
    if j == "num":
        n, d = v
        if d == 0:
            return float("nan") if n == 0 else (float("inf") if n > 0 else float("-inf"))
        return n if d == 1 else n / d
    if j == "bool":
        return bool(v)
    if j == "null":
        return None
    if j == "str":
        return v
    raise TypeError(j)
