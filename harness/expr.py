"""Expression quantities (C17): a small typed grammar of arithmetic / boolean expressions over the record
fields x and y, rendered (a) as the abstract syntax tree the specification evaluates (HgTree!EvalE), (b) as
a string expression for histogrammar, (c) as the source of the equivalent Python function for dict records,
attribute records and bare scalars."""

from fractions import Fraction as F

from .absval import Q

CONSTS = [F(1), F(2), F(1, 2), F(-1), F(0), F(3)]


def gen_num(rng, depth, fields=("x", "y")):
    if depth <= 0 or rng.random() < 0.3:
        if rng.random() < 0.7:
            return {"t": "f", "name": rng.choice(fields)}
        return {"t": "c", "v": Q(rng.choice(CONSTS))}
    t = rng.choice(["add", "sub", "mul", "neg"])
    if t == "neg":
        return {"t": "neg", "a": gen_num(rng, depth - 1, fields)}
    return {"t": t, "a": gen_num(rng, depth - 1, fields), "b": gen_num(rng, depth - 1, fields)}


def gen_bool(rng, depth, fields=("x", "y")):
    if depth <= 1 or rng.random() < 0.4:
        return {"t": rng.choice(["lt", "ge"]), "a": gen_num(rng, depth - 1, fields), "b": gen_num(rng, depth - 1, fields)}
    t = rng.choice(["and", "or", "not"])
    if t == "not":
        return {"t": "not", "a": gen_bool(rng, depth - 1, fields)}
    return {"t": t, "a": gen_bool(rng, depth - 1, fields), "b": gen_bool(rng, depth - 1, fields)}


_BIN = {"add": "+", "sub": "-", "mul": "*", "lt": "<", "ge": ">=", "and": "and", "or": "or"}


def render(e, field=lambda n: n):
    t = e["t"]
    if t == "f":
        return field(e["name"])
    if t == "c":
        n, d = e["v"]
        return "(%r)" % (n / d)
    if t == "neg":
        return "(-%s)" % render(e["a"], field)
    if t == "not":
        return "(not %s)" % render(e["a"], field)
    return "(%s %s %s)" % (render(e["a"], field), _BIN[t], render(e["b"], field))


# the record fields under other names: `e` and `pi` also name constants in the namespace a string expression is
# evaluated in (math.*), which a record's own fields must shadow
ALIAS = {"x": "e", "y": "pi"}


def as_string(e, al=False):
    return render(e, (lambda n: ALIAS.get(n, n)) if al else (lambda n: n))


def as_lambda_src(e, rec, al=False):
    nm = (lambda n: ALIAS.get(n, n)) if al else (lambda n: n)
    if rec == "dict":
        return "lambda d: " + render(e, lambda n: "d[%r]" % nm(n))
    if rec == "attr":
        return "lambda d: " + render(e, lambda n: "d.%s" % nm(n))
    return "lambda d: " + render(e, lambda n: "d")


def fields_of(e):
    if e["t"] == "f":
        return {e["name"]}
    out = set()
    for k in ("a", "b"):
        if k in e:
            out |= fields_of(e[k])
    return out
