"""Self-test: every repaired defect must be re-found.  For each `fixed:` entry of known_findings.json, revert that
commit in a scratch worktree of /repo (outside /repo and /verif), run the owning property's quick check against it
(VERIF_REPO), and require a VIOLATION.  Results -> /verif/seeded/reverts.json."""

import json
import os
import re
import shutil
import subprocess
import sys

VERIF = os.path.dirname(os.path.dirname(os.path.abspath(__file__)))


def main():
    only = set(sys.argv[1:])
    k = json.load(open(os.path.join(VERIF, "known_findings.json")))
    out_path = os.path.join(VERIF, "seeded", "reverts.json")
    results = json.load(open(out_path)) if os.path.exists(out_path) else {}
    for line in k["fixed"]:
        m = re.match(r"fixed: property=(C\d+) ([0-9a-f]+) (.*)", line)
        prop, commit, what = m.groups()
        if only and commit not in only and prop not in only:
            continue
        wt = "/tmp/rv_%s" % commit
        subprocess.run(["git", "-C", "/repo", "worktree", "remove", "--force", wt], stdout=subprocess.DEVNULL, stderr=subprocess.DEVNULL)
        subprocess.check_call(["git", "-C", "/repo", "worktree", "add", "-q", "--detach", wt, "HEAD"])
        try:
            r = subprocess.run(["git", "-C", wt, "revert", "--no-commit", commit], stdout=subprocess.PIPE, stderr=subprocess.STDOUT)
            if r.returncode != 0:
                results[commit] = {"property": prop, "what": what, "status": "revert does not apply cleanly (later fixes touch the same lines)"}
                continue
            p = subprocess.run([os.path.join(VERIF, "check"), prop, "--tier", "quick"], cwd=VERIF,
                               env=dict(os.environ, VERIF_REPO=wt), stdout=subprocess.PIPE, stderr=subprocess.PIPE)
            out = p.stdout.decode()
            results[commit] = {"property": prop, "what": what, "exit": p.returncode,
                               "violation_lines": out.count("VIOLATION property=" + prop),
                               "status": "re-found" if p.returncode == 1 and "VIOLATION property=" + prop in out else "MISSED",
                               "summary": (out.strip().splitlines() or [p.stderr.decode()[-300:]])[-1][:200]}
            print(commit, prop, results[commit]["status"], results[commit]["summary"], flush=True)
        finally:
            subprocess.run(["git", "-C", "/repo", "worktree", "remove", "--force", wt], stdout=subprocess.DEVNULL)
            shutil.rmtree(wt, ignore_errors=True)
        with open(out_path, "w") as f:
            json.dump(results, f, indent=1)
    subprocess.run(["git", "-C", VERIF, "checkout", "--", "evidence"], stdout=subprocess.DEVNULL, stderr=subprocess.DEVNULL)


if __name__ == "__main__":
    main()
