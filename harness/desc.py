"""Descriptors (the static "programs") as plain dicts mirroring the TLA+ records of HgTree.

A descriptor is data only.  build.py turns it into a real histogrammar object; HgTree!Zero turns the
same record into the abstract empty content.  Field `q` is the datum field the quantity reads
('x', 'y' numeric; 'c' category; 's' selection weight), `nm` the user-visible quantity name ('' =
unnamed), `fid` the fault id ('' = the quantity never fails), `form` how the quantity is given to the
library ('fn' lambda, 'str' string expression, 'named', 'cached', 'def').
"""

from .absval import Q, NINF

C = {"k": "Count", "tr": "id"}
CSQ = {"k": "Count", "tr": "sq"}


def _q(k, q, nm="", fid="", form="fn", **kw):
    d = {"k": k, "q": q, "nm": nm, "fid": fid, "form": form}
    d.update(kw)
    return d


def reorder_pairs(d):
    """the same tree with the keys of every Label / UntypedLabel given in reverse order"""
    out = dict(d)
    for key in ("value", "cut", "under", "over", "nan"):
        if key in out and isinstance(out[key], dict):
            out[key] = reorder_pairs(out[key])
    if "pairs" in out:
        out["pairs"] = {k: reorder_pairs(v) for k, v in reversed(list(out["pairs"].items()))}
    if "vals" in out:
        out["vals"] = [reorder_pairs(v) for v in out["vals"]]
    return out


def Count(tr="id"):
    return {"k": "Count", "tr": tr}


def Sum(q="x", **kw):
    return _q("Sum", q, **kw)


def Average(q="x", **kw):
    return _q("Average", q, **kw)


def Deviate(q="x", **kw):
    return _q("Deviate", q, **kw)


def Minimize(q="x", **kw):
    return _q("Minimize", q, **kw)


def Maximize(q="x", **kw):
    return _q("Maximize", q, **kw)


def Bag(q="x", range="N", **kw):
    return _q("Bag", q, range=range, **kw)


def Bin(num, lo, hi, q="x", value=C, under=C, over=C, nan=C, **kw):
    return _q("Bin", q, num=num, lo=Q(lo), hi=Q(hi), value=value, under=under, over=over, nan=nan, **kw)


def SparselyBin(width, q="x", value=C, nan=C, origin=0, **kw):
    return _q("SparselyBin", q, width=Q(width), origin=Q(origin), value=value, nan=nan, **kw)


def CentrallyBin(centers, q="x", value=C, nan=C, **kw):
    return _q("CentrallyBin", q, centers=[Q(c) for c in centers], value=value, nan=nan, **kw)


def IrregularlyBin(edges, q="x", value=C, nan=C, **kw):
    return _q("IrregularlyBin", q, edges=[Q(c) for c in edges], value=value, nan=nan, **kw)


def Stack(thresholds, q="x", value=C, nan=C, **kw):
    return _q("Stack", q, thresholds=[Q(c) for c in thresholds], value=value, nan=nan, **kw)


def Categorize(q="c", value=C, **kw):
    return _q("Categorize", q, value=value, **kw)


def Fraction(q="s", value=C, **kw):
    return _q("Fraction", q, value=value, **kw)


def Select(q="s", cut=C, **kw):
    return _q("Select", q, cut=cut, **kw)


def Label(**pairs):
    return {"k": "Label", "pairs": dict(pairs)}


def UntypedLabel(**pairs):
    return {"k": "UntypedLabel", "pairs": dict(pairs)}


def Index(*vals):
    return {"k": "Index", "vals": list(vals)}


def Branch(*vals):
    return {"k": "Branch", "vals": list(vals)}


CHILD_FIELDS = {
    "Bin": ["value", "under", "over", "nan"],
    "SparselyBin": ["value", "nan"],
    "CentrallyBin": ["value", "nan"],
    "IrregularlyBin": ["value", "nan"],
    "Stack": ["value", "nan"],
    "Categorize": ["value"],
    "Fraction": ["value"],
    "Select": ["cut"],
}


def children(d):
    """(path element, child descriptor) pairs"""
    k = d["k"]
    if k in CHILD_FIELDS:
        return [(f, d[f]) for f in CHILD_FIELDS[k]]
    if k in ("Label", "UntypedLabel"):
        return list(d["pairs"].items())
    if k in ("Index", "Branch"):
        return list(enumerate(d["vals"]))
    return []


def walk(d, path=()):
    yield path, d
    for p, ch in children(d):
        yield from walk(ch, path + (p,))


def replace_at(d, path, new):
    """copy of d with the node at path replaced"""
    if not path:
        return new
    p, rest = path[0], path[1:]
    out = dict(d)
    if d["k"] in ("Label", "UntypedLabel"):
        out["pairs"] = dict(d["pairs"])
        out["pairs"][p] = replace_at(d["pairs"][p], rest, new)
    elif d["k"] in ("Index", "Branch"):
        out["vals"] = list(d["vals"])
        out["vals"][p] = replace_at(d["vals"][p], rest, new)
    else:
        out[p] = replace_at(d[p], rest, new)
    return out


def assign_fids(d, prefix="f"):
    """give every quantity-bearing node a unique fault id"""
    out = d
    for path, node in list(walk(d)):
        if "q" in node:
            out = replace_at(out, path, dict(node_at(out, path), fid=prefix + "".join("_%s" % p for p in path)))
    return out


def node_at(d, path):
    for p in path:
        if d["k"] in ("Label", "UntypedLabel"):
            d = d["pairs"][p]
        elif d["k"] in ("Index", "Branch"):
            d = d["vals"][p]
        else:
            d = d[p]
    return d


def kinds(d):
    return [n["k"] for _, n in walk(d)]


def depth(d):
    return 1 + max([depth(c) for _, c in children(d)] + [0])


def has_quantity(d):
    return any("q" in n for _, n in walk(d))


def has_sq(d):
    return any(n["k"] == "Count" and n["tr"] != "id" for _, n in walk(d))


def numeric_fields(d):
    """fields read by position-valued quantities anywhere in d"""
    return {n["q"] for _, n in walk(d) if "q" in n and n["q"] in ("x", "y")}


def critical_values(d, field):
    """abstract positions that matter for routing on `field`: every edge, centre, midpoint and
    threshold of every node reading that field (plus their neighbourhoods, added by the driver)"""
    from fractions import Fraction as F
    from .absval import frac

    out = set()
    for _, n in walk(d):
        if n.get("q") != field and not (n["k"] == "Bag" and n.get("range") == "N2"):
            continue
        k = n["k"]
        if k == "Bin":
            lo, hi = frac(n["lo"]), frac(n["hi"])
            for i in range(n["num"] + 1):
                out.add(lo + (hi - lo) * i / n["num"])
        elif k == "SparselyBin":
            w, o = frac(n["width"]), frac(n["origin"])
            for i in range(-2, 3):
                out.add(o + w * i)
        elif k == "CentrallyBin":
            cs = [frac(c) for c in n["centers"]]
            out.update(cs)
            out.update((a + b) / 2 for a, b in zip(cs, cs[1:]))
        elif k == "IrregularlyBin":
            out.update(frac(c) for c in n["edges"])
        elif k == "Stack":
            out.update(frac(c) for c in n["thresholds"])
    # exact regime: only positions that every dyadic gamma maps to an exactly representable float
    return {v for v in out if v.denominator & (v.denominator - 1) == 0}
