"""The check engine: design-level TLC runs + conformance (record on the real library, validate with TLC),
attribution, known findings, evidence, exit code."""

import collections
import json
import os
import random
import sys
import time
from concurrent.futures import ThreadPoolExecutor

from . import judge, model, props, validate

ASSUMPTIONS = [
    "the projection pi (harness/project.py) and concretisation gamma (harness/build.py) are trusted: they read public "
    "attributes and convert numbers, they contain no aggregator semantics",
    "exact regime: model data lie on a small rational grid and gamma is dyadic, so every value except means and "
    "variances is exactly representable; means/variances are reconstructed as the nearest rational with denominator "
    "<= 4096 (resolution ~6e-8)",
    "TLC (tla2tools 1.8.0) evaluates the specification correctly; bounds are those stated in coverage.rule",
]


def coverage_class(tr, ev):
    if tr.get("kind") == "edge":
        return (tr.get("root"), ev["op"], ev.get("out"), ev.get("cls", "-"), ev.get("near", "-"), ev.get("vec", "-"), ev.get("full", "-"),
                ev.get("overlap", "-"), min(tr.get("n", 0), 12))
    x = ev.get("x")
    if not isinstance(x, dict):
        x = None

    def ncls(p):
        if p is None:
            return "-"
        if p[1] == 0:
            return {0: "nan", 1: "+inf", -1: "-inf"}[p[0]]
        return "fin"

    w = ev.get("w")
    wc = "-" if w is None else ("nan" if w == [0, 0] else ("pos" if w[0] > 0 else ("zero" if w[0] == 0 else "neg")))
    f = ev.get("f")
    fc = "-" if f is None else ("nan" if f == [0, 0] else ("pos" if f[0] > 0 else "nonpos"))
    return (tr.get("root", "?"), ev["op"], ev.get("out"), ncls(x["x"]) if x else "-", ncls(x["y"]) if x else "-", wc, fc,
            ev.get("wf", "-"), ev.get("which", "-"), ev.get("via", "-"), ev.get("mkind", "-"), ev.get("st", "-"))


def run_check(pid, tier, seed, plan=None):
    t0 = time.time()
    rdir = os.path.join(judge.VERIF, "replays")
    if os.path.isdir(rdir):
        for f in os.listdir(rdir):  # replay files are rewritten by every run of this property's check
            if f.startswith(pid + "-"):
                os.unlink(os.path.join(rdir, f))
    rng = random.Random("%s/%s/%d" % (pid, tier, seed))
    plan = plan or props
    design = plan.design_runs(pid, tier, rng)
    machinery_errors = []

    # 1. design level: exhaustive TLC runs of the specification itself (in the background)
    def run_design(kw):
        kw = dict(kw)
        if "apalache" in kw:  # unbounded inductive-invariant check of a small specification
            return {"k": kw["apalache"]}, model.apalache_inductive(kw["apalache"], kw["modules"])
        if "module" in kw:  # a model other than HgSystem
            from . import tlc

            return {"k": kw["module"]}, tlc.run(kw["module"], kw["cfg"], workers=kw.get("workers", 4), timeout=3000)
        d = kw.pop("d")
        return d, model.check_design(d, timeout=3000, **kw)

    ex = ThreadPoolExecutor(max_workers=4 if tier == "quick" else 2)
    design_futs = [ex.submit(run_design, kw) for kw in design]

    # 2. conformance: histories on the real library, judged by TLC against the trace specification
    tt = time.time()
    jobs = plan.plan_jobs(pid, tier, rng)
    t_plan = time.time() - tt
    tt = time.time()
    traces = validate.record_all(jobs)
    t_rec = time.time() - tt
    byid = {j["id"]: j for j in jobs}
    assert len(byid) == len(jobs), "job ids collide"
    for tr in traces:
        j = byid[tr["id"]]
        tr["kind"], tr["root"], tr["ops"], tr["job"] = j.get("kind", ""), j.get("root", "?"), j["ops"], j
    mods = sorted({j.get("module", "HgTrace") for j in jobs})
    val = {"verdicts": [], "states": 0, "distinct": 0, "wall": 0.0, "errors": [], "dropped": []}
    for mod in mods:
        ids = {j["id"] for j in jobs if j.get("module", "HgTrace") == mod}
        v1 = validate.validate([t for t in traces if t["id"] in ids], nproc=8, module=mod)
        for k in val:
            val[k] += v1[k]
    machinery_errors += val["errors"]
    res = judge.judge(pid, [t for t in traces if t["events"]], val["verdicts"])

    states = val["states"]
    transitions = val["states"]
    design_info = []
    spec_violations = []
    for fut in design_futs:
        d, r = fut.result()
        design_info.append({"root": d["k"], "generated": r["states"], "distinct": r["distinct"], "wall_s": round(r["wall"], 1),
                            "data": r.get("ndata")})
        states += r["distinct"]
        transitions += r["states"]
        if r["error"]:
            if "Invariant" in r["error"] or "violated" in r["error"] or "Temporal properties" in r["out"]:
                spec_violations.append((d, r))
            else:
                machinery_errors.append("design run: " + r["error"] + "\n" + r["out"][-2000:])
    ex.shutdown()

    known = judge.load_known()
    lines, nviol, known_seen = [], 0, collections.OrderedDict()
    for d, r in spec_violations:
        # the specification itself does not have the property on the bounded model: a design-level violation
        path = os.path.join(judge.VERIF, "replays", "%s-spec-%s.txt" % (pid, d["k"]))
        os.makedirs(os.path.dirname(path), exist_ok=True)
        with open(path, "w") as f:
            f.write(json.dumps(d) + "\n" + r["out"][-20000:])
        lines.append("VIOLATION property=%s replay=%s" % (pid, path))
        nviol += 1
    seen_sigs = set()
    for fnd in res["findings"]:
        k = judge.match_known(pid, fnd, known)
        if k is not None:
            known_seen[k["id"]] = k
            continue
        nviol += 1
        sig = fnd.signature()
        if sig in seen_sigs and len(seen_sigs) >= 1 and nviol > 40:
            continue
        seen_sigs.add(sig)
        path = judge.write_replay(pid, fnd)
        lines.append("VIOLATION property=%s replay=%s" % (pid, path))
    for k in known_seen.values():
        lines.append("KNOWN-FINDING: property=%s %s" % (pid, k["what"]))

    # 3. evidence
    classes = collections.Counter()
    nevents = 0
    for tr in traces:
        for ev in tr["events"]:
            classes[coverage_class(tr, ev)] += 1
            nevents += 1
    samples = []
    for tr in traces[:2]:
        samples.append({"gamma": tr["gamma"], "root": tr.get("root"), "kind": tr.get("kind"),
                        "ops": [{k: v for k, v in e.items() if k not in ("ch", "sh", "d")} for e in tr["events"][:6]]})
    coverage = {
        "states": int(states),
        "transitions": int(transitions),
        "traces_validated_against_impl": res["judged_traces"],
        "samples": samples,
        "evaluations": nevents,
        "distinct_nontrivial": len(classes),
        "rule": "design level: exhaustive TLC runs of spec/HgSystem.tla (invariants SemInv, WFInv, Comm, Unit, Assoc, "
                "ScaleLaws, NullWeights, FillCommutes, BatchSplit, ViewsAgree, RoundTrip, for C04/C15 also ParseSound, action property FrameOK) on the listed descriptors, "
                "pool of 3, bounded fills/ops over each descriptor's critical alphabet; conformance: seeded histories "
                "over catalogue trees T1-T4 plus behaviours produced by `tlc -simulate` from HgSystem, executed on the "
                "real library under dyadic affine maps gamma and validated event by event by TLC against "
                "spec/HgTrace.tla. evaluations = recorded public calls; a case is non-trivial/distinct by its coverage "
                "class (root kind, operation, outcome, x/y datum class, weight class, factor class, weight form, "
                "accessor, reload route)",
        "design_models": design_info,
        "events_judged_before_first_failure": res["judged_events"],
        "traces_cut_by_foreign_mismatch": res["foreign"],
        "traces_cut_by_magnitude_budget": sum(1 for t in traces if t.get("cut")),
        "traces_dropped_tlc_overflow": len(val["dropped"]),
        "known_findings_seen": list(known_seen),
        "tlc_trace_validation_wall_s": round(val["wall"], 1),
        "exhaustive": False,
    }
    wall = time.time() - t0
    judge.write_evidence(pid, tier, seed, "model_checking", coverage, wall, nviol, ASSUMPTIONS)
    okcount = collections.Counter()
    for tr in traces:
        for ev in tr["events"]:
            if ev.get("out") == "ok":
                okcount[ev["op"]] += 1
    for op_, need in getattr(plan, "REQUIRED_OK", {}).get(pid, {}).items():
        if okcount[op_] < need:
            machinery_errors.append("vacuity guard: only %d successful %s operations were exercised (need >= %d)"
                                    % (okcount[op_], op_, need))
    for ln in lines:
        print(ln)
    if machinery_errors:
        for e in machinery_errors:
            sys.stderr.write("MACHINERY ERROR: %s\n" % e)
        return 2
    print("%s %s: %d traces, %d events, %d states; %d violation(s), %d known finding(s); %.0fs "
          "(plan %.0fs, record %.0fs, validate %.0fs, design %s)" % (
              pid, tier, len(traces), nevents, states, nviol, len(known_seen), wall, t_plan, t_rec, val["wall"],
              "+".join("%.0f" % x["wall_s"] for x in design_info)))
    return 1 if nviol else 0
