"""Concretisation gamma: abstract descriptors / data -> real histogrammar objects / records.

gamma is an affine map pos(v) = a*v + b with dyadic a, b applied to every *position* (numeric datum
fields x and y, bin edges, centres, thresholds, origins); widths scale by a; weights, selection
values and scale factors are not mapped.  With dyadic a, b and the small magnitudes of the model's
grid all of these are exactly representable floats.  No semantics of the aggregators lives here.
"""

from fractions import Fraction

import numpy as np

from .absval import frac, to_float, is_fin, EMPTYNAME


class Gamma:
    def __init__(self, a=1, b=0):
        self.a = Fraction(a)
        self.b = Fraction(b)

    def pos(self, p):
        """abstract position -> float"""
        if not is_fin(p):
            return to_float(p)
        v = self.a * frac(p) + self.b
        f = float(v)
        assert Fraction(f) == v, "gamma not exact for %r" % (p,)
        return f

    def width(self, p):
        v = self.a * frac(p)
        f = float(v)
        assert Fraction(f) == v
        return f

    def inv_pos(self, v):
        """exact Fraction of a real position -> abstract Fraction"""
        return (v - self.b) / self.a

    def to_json(self):
        return [str(self.a), str(self.b)]

    def __repr__(self):
        return "Gamma(%s,%s)" % (self.a, self.b)


GAMMAS = [Gamma(1, 0), Gamma(Fraction(1, 2), 0), Gamma(2, -3), Gamma(1, -7), Gamma(Fraction(1, 4), 1024)]
GAMMAS_SMALL = [Gamma(1, 0), Gamma(Fraction(1, 2), 0), Gamma(2, -3), Gamma(1, -7)]  # |b|/a <= 64 (Average/Deviate)


# ---------------------------------------------------------------------------------------------
# quantity functions.  They are created with eval so that every one is a self-contained lambda
# without closure cells (UserFcn.__reduce__ cannot pickle cells) and without module globals.

RECMODE = ["dict"]  # how records are handed to fill(): "dict", "attr" (attribute records) or "scalar" (bare numbers)


def _fn_src(field, fid, strok=False):
    if field == "N2":
        core = "__import__('numpy').array([d['x'], d['y']]).T"
    elif field == "cS":
        core = "(d['c'] if d['c'] is not None else 'None')"
    elif RECMODE[0] == "attr":
        core = "d.%s" % field
    elif RECMODE[0] == "scalar":
        core = "d"
    else:
        core = "d[%r]" % field
    if fid:
        # fails only on data that carry this quantity's fault id (row-wise dict data only)
        # the faulty quantity raises, or returns something of the wrong type: a list or - where strings are not
        # data - a NumPy string scalar
        return ("lambda d: (%s) if d['fa'] != %r else ((_ for _ in ()).throw(ValueError('injected fault')) "
                "if d['fm'] == 'raise' else (__import__('numpy').str_('zz') if d['fm'] == 'npstr' and %r else "
                "((-1.0) ** 0.5 if d['fm'] == 'complex' else [])))" % (core, fid, not strok))
    return "lambda d: %s" % core


def _real_name(nm):
    """abstract name -> the name given to the library (absval.EMPTYNAME is the explicit empty string)"""
    return "" if nm == EMPTYNAME else nm


def make_quantity(node):
    import histogrammar as hg
    from histogrammar.util import named, cached

    if "qe" in node:
        from . import expr as E

        nm = node.get("nm", "")
        if node.get("form") == "str":
            s = E.as_string(node["qe"], node.get("al", False))
            return named(_real_name(nm), s) if nm and nm != s else s     # (a string expression's own name is its text)
        fn = eval(E.as_lambda_src(node["qe"], RECMODE[0], node.get("al", False)), {})
        return named(_real_name(nm), fn) if nm else fn
    field = node["q"]
    if node["k"] == "Bag":
        field = {"N": field, "N2": "N2", "S": "cS"}[node["range"]]
    form = node.get("form", "fn")
    nm = node.get("nm", "")
    fid = node.get("fid", "")
    if form == "str":
        # string expression; its auto-name is the expression itself (descriptor nm must say so)
        assert not fid and field in ("x", "y", "s", "c")
        return named("", field) if nm == EMPTYNAME else field
    # (strings are data for Categorize and for string-valued Bags)
    fn = eval(_fn_src(field, fid, strok=node["k"] == "Categorize" or field == "cS"), {})
    if form == "tup" and field == "N2" and not fid:
        # the vector of a Bag as a tuple of plain Python floats (row-wise histories only)
        fn = eval("lambda d: (d['x'], d['y'])", {})
    if form == "deflam":
        # functions from one source line that differ only in a default argument (the `lambda d, c=c: d[c]` idiom)
        fn = eval("lambda d, _f=%r: d[_f]" % field, {})
    if form == "def":
        ns = {}
        exec("def %s(d):\n    return d[%r]\n" % (nm, field), ns)
        return ns[nm]
    if form == "cached":
        fn = cached(fn)
    if nm:
        fn = named(_real_name(nm), fn)
    return fn


def build(d, g, shared=None):
    """descriptor -> real histogrammar aggregator under gamma g.
    `shared`: dict share-id -> object, for descriptors that install one object at several positions"""
    import histogrammar as hg

    if shared is not None and d.get("share"):
        if d["share"] in shared:
            return shared[d["share"]]
    k = d["k"]
    B = lambda c: build(c, g, shared)  # noqa: E731
    if k == "Count":
        out = hg.Count() if d["tr"] == "id" else hg.Count(eval("lambda w: w * w", {}))
    elif k in ("Sum", "Average", "Deviate", "Minimize", "Maximize"):
        out = getattr(hg, k)(make_quantity(d))
    elif k == "Bag":
        out = hg.Bag(make_quantity(d), d["range"])
    elif k == "Bin":
        out = hg.Bin(d["num"], g.pos(d["lo"]), g.pos(d["hi"]), make_quantity(d), B(d["value"]), B(d["under"]),
                     B(d["over"]), B(d["nan"]))
    elif k == "SparselyBin":
        out = hg.SparselyBin(g.width(d["width"]), make_quantity(d), B(d["value"]), B(d["nan"]), g.pos(d["origin"]))
    elif k == "CentrallyBin":
        out = hg.CentrallyBin([g.pos(c) for c in d["centers"]], make_quantity(d), B(d["value"]), B(d["nan"]))
    elif k == "IrregularlyBin":
        out = hg.IrregularlyBin([g.pos(c) for c in d["edges"]], make_quantity(d), B(d["value"]), B(d["nan"]))
    elif k == "Stack":
        out = hg.Stack([g.pos(c) for c in d["thresholds"]], make_quantity(d), B(d["value"]), B(d["nan"]))
    elif k == "Categorize":
        out = hg.Categorize(make_quantity(d), B(d["value"]))
    elif k == "Fraction":
        out = hg.Fraction(make_quantity(d), B(d["value"]))
    elif k == "Select":
        out = hg.Select(make_quantity(d), B(d["cut"]))
    elif k in ("Label", "UntypedLabel"):
        if "ed" in d:       # put together with .ed(entries, children)
            out = getattr(hg, k).ed(to_float(d["ed"]), **{key: B(c) for key, c in d["pairs"].items()})
        else:
            out = getattr(hg, k)(**{key: B(c) for key, c in d["pairs"].items()})
    elif k in ("Index", "Branch"):
        if "ed" in d:
            out = getattr(hg, k).ed(to_float(d["ed"]), *[B(c) for c in d["vals"]])
        else:
            out = getattr(hg, k)(*[B(c) for c in d["vals"]])
    else:
        raise ValueError(k)
    if shared is not None:
        # flows marked inst are installed by assignment after construction (the constructors copy their arguments)
        for key, attr in (("under", "underflow"), ("over", "overflow"), ("nan", "nanflow")):
            if key in d and d[key].get("inst"):
                setattr(out, attr, B(d[key]))
    if shared is not None and d.get("xid"):
        # one of this container's own children is also installed somewhere else in the tree (descriptor nodes with
        # share id xid): optionally rebuild the container first through copy() / zero() / + (explicit-pairs forms)
        via = d.get("xvia", "")
        if d.get("xpre"):
            # the container was used on its own first: a fill of weight 0 runs the cross-reference check (and sets
            # its flags) without changing any content
            out.fill({"x": 0.0, "y": 0.0, "s": 1.0, "e": 0.0, "pi": 0.0, "c": "a", "fa": "", "fm": ""}, 0.0)
        if via == "copy":
            out = out.copy()
        elif via == "zero":
            out = out.zero()
        elif via == "add":
            out = out + out.zero()
        shared[d["xid"]] = _child_at(out, d["xpos"])
    if shared is not None and d.get("share"):
        shared[d["share"]] = out
    return out


def _child_at(h, pos):
    k = h.name
    if pos in ("nan", "under", "over"):
        return getattr(h, {"nan": "nanflow", "under": "underflow", "over": "overflow"}[pos])
    if pos in ("first", "last"):
        i = 0 if pos == "first" else -1
        if k == "Bin":
            return h.values[i]
        if k in ("CentrallyBin", "IrregularlyBin", "Stack"):
            return h.bins[i][1]
        if k in ("Index", "Branch"):
            return h.values[i]
    if k == "Fraction":
        return h.numerator if pos == "num" else h.denominator
    if k == "Select":
        return h.cut
    raise ValueError((k, pos))


def conv_name(d):
    """the convenience constructor (histogrammar.convenience) that builds a tree of this shape, if any"""
    plain = lambda c: c.get("k") == "Count" and c.get("tr") == "id"  # noqa: E731
    if any(n.get("share") or n.get("inst") for n in (d, d.get("value", {}), d.get("cut", {}))):
        return None
    k = d["k"]
    if k == "Select" and d["cut"]["k"] == "Bin" and conv_name(d["cut"]) == "Histogram":
        return "HistogramCut"
    if k == "Categorize" and plain(d["value"]):
        return "CategorizeHistogram"
    if k == "Bin" and all(plain(d[f]) for f in ("under", "over", "nan")):
        v = d["value"]
        if plain(v):
            return "Histogram"
        if v["k"] in ("Average", "Deviate"):
            return {"Average": "Profile", "Deviate": "ProfileErr"}[v["k"]]
        if v["k"] == "Bin" and conv_name(v) == "Histogram":
            return "TwoDimensionallyHistogram"
    if k == "SparselyBin" and plain(d["nan"]):
        v = d["value"]
        if plain(v):
            return "SparselyHistogram"
        if v["k"] in ("Average", "Deviate"):
            return {"Average": "SparselyProfile", "Deviate": "SparselyProfileErr"}[v["k"]]
        if v["k"] == "SparselyBin" and conv_name(v) == "SparselyHistogram":
            return "TwoDimensionallySparselyHistogram"
    return None


def build_conv(d, g):
    """like build, through the convenience constructor conv_name(d)"""
    from histogrammar import convenience as hg

    name = conv_name(d)
    q = make_quantity
    v = d.get("value")
    if name == "Histogram":
        return hg.Histogram(d["num"], g.pos(d["lo"]), g.pos(d["hi"]), q(d))
    if name == "HistogramCut":
        c = d["cut"]
        return hg.HistogramCut(c["num"], g.pos(c["lo"]), g.pos(c["hi"]), q(c), q(d))
    if name == "SparselyHistogram":
        return hg.SparselyHistogram(g.width(d["width"]), q(d), g.pos(d["origin"]))
    if name == "CategorizeHistogram":
        return hg.CategorizeHistogram(q(d))
    if name in ("Profile", "ProfileErr"):
        return getattr(hg, name)(d["num"], g.pos(d["lo"]), g.pos(d["hi"]), q(d), q(v))
    if name in ("SparselyProfile", "SparselyProfileErr"):
        return getattr(hg, name)(g.width(d["width"]), q(d), q(v), g.pos(d["origin"]))
    if name == "TwoDimensionallyHistogram":
        return hg.TwoDimensionallyHistogram(d["num"], g.pos(d["lo"]), g.pos(d["hi"]), q(d),
                                            v["num"], g.pos(v["lo"]), g.pos(v["hi"]), q(v))
    if name == "TwoDimensionallySparselyHistogram":
        return hg.TwoDimensionallySparselyHistogram(g.width(d["width"]), q(d), g.width(v["width"]), q(v),
                                                    g.pos(d["origin"]), g.pos(v["origin"]))
    raise ValueError(name)


def build_default(d, g):
    """like build, but child positions whose descriptor is a plain Count are left to the constructor's DEFAULT
    argument (C06: constructor calls relying on default arguments must not share state)"""
    import histogrammar as hg

    plain = lambda c: c == {"k": "Count", "tr": "id"}  # noqa: E731
    k = d["k"]
    R = lambda c: build_default(c, g)  # noqa: E731

    def kw(**children):
        return {name: R(c) for name, c in children.items() if not plain(c)}

    if k == "Bin":
        return hg.Bin(d["num"], g.pos(d["lo"]), g.pos(d["hi"]), make_quantity(d),
                      **kw(value=d["value"], underflow=d["under"], overflow=d["over"], nanflow=d["nan"]))
    if k == "SparselyBin":
        return hg.SparselyBin(g.width(d["width"]), make_quantity(d), origin=g.pos(d["origin"]), **kw(value=d["value"], nanflow=d["nan"]))
    if k == "CentrallyBin":
        return hg.CentrallyBin([g.pos(c) for c in d["centers"]], make_quantity(d), **kw(value=d["value"], nanflow=d["nan"]))
    if k == "IrregularlyBin":
        return hg.IrregularlyBin([g.pos(c) for c in d["edges"]], make_quantity(d), **kw(value=d["value"], nanflow=d["nan"]))
    if k == "Stack":
        return hg.Stack([g.pos(c) for c in d["thresholds"]], make_quantity(d), **kw(value=d["value"], nanflow=d["nan"]))
    if k == "Categorize":
        return hg.Categorize(make_quantity(d), **kw(value=d["value"]))
    if k == "Fraction":
        return hg.Fraction(make_quantity(d), **kw(value=d["value"]))
    if k == "Select":
        return hg.Select(make_quantity(d), **kw(cut=d["cut"]))
    if k in ("Label", "UntypedLabel"):
        return getattr(hg, k)(**{key: R(c) for key, c in d["pairs"].items()})
    if k in ("Index", "Branch"):
        return getattr(hg, k)(*[R(c) for c in d["vals"]])
    return build(d, g)


def check_exact(d, g):
    """every structural parameter of d must be exactly representable under g (harness precondition)"""
    from .desc import walk

    for _, n in walk(d):
        for key in ("lo", "hi", "origin"):
            if key in n:
                g.pos(n[key])
        if "width" in n:
            g.width(n["width"])
        for key in ("centers", "edges", "thresholds"):
            for c in n.get(key, []):
                g.pos(c)


# ---------------------------------------------------------------------------------------------
# data

CAT = {"None": None, "True": True, "False": False}
# how the categories "True" / "False" are handed to the library: as booleans ("bool") or as the strings ("str")
CATMODE = ["bool"]


class AttrRecord:
    def __init__(self, d):
        self.__dict__.update(d)


def datum(x, g, rec=None):
    """abstract datum record -> record for row-wise fill (dict, attribute record or bare scalar)"""
    d = _datum(x, g)
    rec = rec or RECMODE[0]
    if rec == "attr":
        return AttrRecord(d)
    if rec == "scalar":
        return d["x"]
    if rec == "intdict":
        # whole numbers as Python ints (and, for selections, booleans where the value is 0 / 1)
        return {k: (int(v) if isinstance(v, float) and v == v and abs(v) != float("inf") and v == int(v) else v)
                for k, v in d.items()}
    if rec == "booldict":
        # 0 / 1 as Python booleans (quantities "must be boolean or number")
        return {k: (bool(v) if isinstance(v, float) and v in (0.0, 1.0) else v) for k, v in d.items()}
    if rec == "negzero":
        # zero as negative zero
        return {k: (-0.0 if isinstance(v, float) and v == 0.0 else v) for k, v in d.items()}
    if rec == "npdict":
        # the numbers of a record as NumPy scalars (what iterating over an array or a DataFrame column yields)
        return {k: (np.float64(v) if isinstance(v, float) else v) for k, v in d.items()}
    return d


def _datum(x, g):
    c = x["c"]
    return {
        "x": g.pos(x["x"]),
        "y": g.pos(x["y"]),
        "s": to_float(x["s"]),
        "e": g.pos(x["x"]),       # (x and y once more, under names that collide with math.e / math.pi: expr.ALIAS)
        "pi": g.pos(x["y"]),
        "c": (c if CATMODE[0] == "str" and c in ("True", "False") else CAT.get(c, c)),
        "fa": x.get("fa", ""),
        "fm": x.get("fm", ""),
    }


def batch(rows, g):
    """abstract rows -> numpy record array for fill.numpy (no None categories: numpy string column)"""
    n = len(rows)
    arr = np.zeros(n, dtype=[("x", "f8"), ("y", "f8"), ("s", "f8"), ("c", "U8")])
    for i, x in enumerate(rows):
        arr["x"][i] = g.pos(x["x"])
        arr["y"][i] = g.pos(x["y"])
        arr["s"][i] = to_float(x["s"])
        arr["c"][i] = x["c"]
    return arr.view(np.recarray)
