"""Property-specific drivers (operation sequences with abstract arguments).  See drivers.py."""

from fractions import Fraction as F

from . import catalogue as K, desc as D, drivers as DR
from .absval import Q, NAN, EMPTYNAME, frac


# ------------------------------------------------------------------------------------------------
# C03: vectorised fill
def ops_numpy(rng, d):
    """batches of 0..4 rows in every weight form, interleaved with row-wise fills and split batches"""
    al = DR.Alphabet(d, DR.CATS_NP)
    ops = [{"op": "New", "s": 1, "d": d}, {"op": "New", "s": 2, "d": d}]
    for _ in range(rng.randint(1, 4)):
        s = rng.choice([1, 2])
        r = rng.random()
        if r < 0.2:
            ops.append({"op": "Fill", "s": s, "x": al.datum(rng), "w": rng.choice(DR.POSWEIGHTS)})
            continue
        n = rng.choice([0, 1, 2, 2, 3, 4])
        rows = [al.datum(rng) for _ in range(n)]
        wf = rng.choice(["one", "one", "scalar", "array"])
        # the batch as a record array, a dict of columns or a pandas DataFrame
        ev = {"op": "FillNumpy", "s": s, "rows": rows, "wf": wf, "bf": rng.choice(["rec", "rec", "dict", "ints"])}
        if wf == "scalar":
            ev["wsc"] = rng.choice(DR.POSWEIGHTS)
        elif wf == "array":
            if rng.random() < 0.3:      # whole-number weights in an integer array
                ev["ws"] = [rng.choice([Q(1), Q(2), Q(0), Q(3)]) for _ in range(n)]
                ev["wdt"] = rng.choice(["i8", "i4"])
            else:
                ev["ws"] = [rng.choice(DR.POSWEIGHTS + [Q(0)]) for _ in range(n)]
        ops.append(ev)
    return ops, 2


# ------------------------------------------------------------------------------------------------
# C04 / C11: round trips and continuations
def ops_roundtrip(rng, d, which, cats=DR.CATS):
    """fill, derive (reload via dict/string/file or pickle), then use the clone interchangeably"""
    al = DR.Alphabet(d, cats)
    ops = [{"op": "New", "s": 1, "d": d}, {"op": "New", "s": 2, "d": d}]
    for _ in range(rng.randint(0, 4)):
        ops.append({"op": "Fill", "s": rng.choice([1, 2]), "x": al.datum(rng), "w": rng.choice(DR.POSWEIGHTS)})
    if rng.random() < 0.3:
        ops.append({"op": "Add", "t": 1, "a": 1, "b": 2})
    if rng.random() < 0.2 and not D.has_sq(d):
        ops.append({"op": "Mul", "t": 1, "a": 1, "f": rng.choice([Q(2), Q(F(1, 2))]), "side": "l"})
    if which == "reload":
        ops.append({"op": "Doc", "a": 1})
        ops.append({"op": "Reload", "t": 3, "a": 1, "via": rng.choice(["dict", "string", "file"])})
        ops.append({"op": "Read", "a": 3, "which": "toJson"})
        ops.append({"op": "Doc", "a": 3})
        # interchangeable with the original under +, *, zero(), copy(), re-serialisation
        for _ in range(rng.randint(1, 4)):
            r = rng.randrange(7)
            if r == 0:
                ops.append({"op": "Add", "t": 4, "a": 3, "b": 2})
            elif r == 1:
                ops.append({"op": "Add", "t": 4, "a": 2, "b": 3})
            elif r == 2 and not D.has_sq(d):
                ops.append({"op": "Mul", "t": 4, "a": 3, "f": rng.choice(DR.FACTORS), "side": rng.choice("lr")})
            elif r == 3:
                ops.append({"op": "Zero", "t": 4, "a": 3})
            elif r == 4:
                ops.append({"op": "Copy", "t": 4, "a": 3})
            elif r == 5:
                ops.append({"op": "Reload", "t": 4, "a": 3, "via": rng.choice(["dict", "string", "file"])})
                ops.append({"op": "Eq", "a": 3, "b": 4, "must": True})
            else:
                ops.append({"op": "IAdd", "a": 2, "b": 3})
        return ops, 4
    # pickle: clone stays live; feed clone and original the same further data
    numpy_ok = D.has_quantity(d) and not any(n.get("form") in ("def", "str") or "qe" in n for _, n in D.walk(d)) \
        and not any(n["k"] == "Bag" and n["range"] == "S" for _, n in D.walk(d))
    ops.append({"op": "Pickle", "t": 3, "a": 1})
    ops.append({"op": "Eq", "a": 1, "b": 3, "must": True})
    same = True
    for _ in range(rng.randint(1, 4)):
        r = rng.random()
        if r < 0.25 and numpy_ok:
            # the clone and the original receive the same batch (vectorised)
            rows = [DR.Alphabet(d, DR.CATS_NP).datum(rng) for _ in range(rng.randint(1, 3))]
            ev = {"op": "FillNumpy", "rows": rows, "wf": rng.choice(["one", "scalar", "array"])}
            if ev["wf"] == "scalar":
                ev["wsc"] = rng.choice(DR.POSWEIGHTS)
            elif ev["wf"] == "array":
                ev["ws"] = [rng.choice(DR.POSWEIGHTS) for _ in rows]
            ops.append(dict(ev, s=1))
            ops.append(dict(ev, s=3))
        elif r < 0.6:
            x, w = al.datum(rng), rng.choice(DR.POSWEIGHTS)
            ops.append({"op": "Fill", "s": 1, "x": x, "w": w})
            ops.append({"op": "Fill", "s": 3, "x": x, "w": w})
        elif r < 0.8:
            ops.append({"op": "Add", "t": 1, "a": 1, "b": 2})
            ops.append({"op": "Add", "t": 3, "a": 3, "b": 2})
        else:
            ops.append({"op": "Pickle", "t": 4, "a": 3})
            ops.append({"op": "Read", "a": 4, "which": "toJson"})
    ops.append({"op": "Eq", "a": 1, "b": 3, "must": same})
    return ops, 4


def with_forms(rng, d):
    """C11 / C17: give the quantities of d different forms (lambda, string expression, named, cached, def)"""
    out = d
    for path, node in list(D.walk(d)):
        if "q" not in node or node["k"] == "Bag":
            continue
        form = rng.choice(["fn", "fn", "str", "named", "cached", "def", "cachednamed", "deflam", "deflam",
                           "emptynamed", "emptystr", "emptycached"])
        new = dict(D.node_at(out, path))
        if form == "str":
            new.update(form="str", nm=new["q"])
        elif form == "named":
            new.update(form="fn", nm="n_" + new["q"])
        elif form == "cached":
            new.update(form="cached")
        elif form == "cachednamed":
            new.update(form="cached", nm="cn_" + new["q"])
        elif form == "def":
            new.update(form="def", nm="def_" + new["q"])
        elif form == "deflam":
            new.update(form="deflam")
        elif form == "emptynamed":
            # a falsy but explicit name: named("", f) is a named quantity whose name is the empty string
            new.update(form="fn", nm=EMPTYNAME)
        elif form == "emptystr":
            new.update(form="str", nm=EMPTYNAME)
        elif form == "emptycached":
            new.update(form="cached", nm=EMPTYNAME)
        out = D.replace_at(out, path, new)
    return out


# ------------------------------------------------------------------------------------------------
# C06: independently constructed aggregators (default arguments)
def ops_defaults(rng, d):
    al = DR.Alphabet(d)
    ops = [{"op": "NewDefault", "s": 1, "d": d}, {"op": "NewDefault", "s": 2, "d": d}]
    for _ in range(rng.randint(1, 4)):
        ops.append({"op": "Fill", "s": rng.choice([1, 2]), "x": al.datum(rng), "w": rng.choice(DR.POSWEIGHTS)})
    ops.append({"op": "NewDefault", "s": 3, "d": d})
    return ops, 3


# ------------------------------------------------------------------------------------------------
# C09: equality
def perturb_datum(rng, x, d):
    y = dict(x)
    fields = sorted(D.numeric_fields(d)) or ["x"]
    f = rng.choice(fields + (["c"] if any(n.get("q") == "c" for _, n in D.walk(d)) else []))
    if f == "c":
        y["c"] = "b" if x["c"] != "b" else "a"
    else:
        v = x[f]
        y[f] = Q(frac(v) + rng.choice([1, F(1, 2), 2])) if v[1] != 0 else Q(1)
    return y


def ops_eq(rng, d, cats=DR.CATS):
    """pairs with identical content (copy / pickle / reload lineage, same fills) and pairs that differ in exactly
    one datum (hence one numeric field / bin key / nested child)"""
    al = DR.Alphabet(d, cats)
    n = rng.randint(1, 4)
    stream = [(al.datum(rng), rng.choice(DR.POSWEIGHTS)) for _ in range(n)]
    ops = [{"op": "New", "s": 1, "d": d}, {"op": "New", "s": 2, "d": d}]
    for x, w in stream:
        ops.append({"op": "Fill", "s": 1, "x": x, "w": w})
    mode = rng.choice(["same", "perturb", "perturb", "weight", "lineage"])
    if mode == "lineage":
        ops.append({"op": "Eq", "a": 1, "b": 1, "must": True})
        ops.append({"op": "Copy", "t": 2, "a": 1})
        ops.append({"op": "Eq", "a": 1, "b": 2, "must": True})
        ops.append({"op": "Pickle", "t": 3, "a": 1})
        ops.append({"op": "Eq", "a": 3, "b": 1, "must": True})
        ops.append({"op": "Reload", "t": 3, "a": 1, "via": "dict"})
        ops.append({"op": "Reload", "t": 4, "a": 1, "via": "string"})
        ops.append({"op": "Eq", "a": 3, "b": 4, "must": True})
        x, w = al.datum(rng), rng.choice(DR.POSWEIGHTS)
        ops.append({"op": "Fill", "s": 2, "x": x, "w": w})
        ops.append({"op": "Eq", "a": 1, "b": 2, "must": False})
        return ops, 4
    i = rng.randrange(n)
    for j, (x, w) in enumerate(stream):
        if j == i and mode == "perturb":
            x = perturb_datum(rng, x, d)
        if j == i and mode == "weight":
            w = Q(frac(w) * 2)
        ops.append({"op": "Fill", "s": 2, "x": x, "w": w})
    ops.append({"op": "Eq", "a": 1, "b": 2, "must": False})
    ops.append({"op": "Eq", "a": 2, "b": 1, "must": False})
    ops.append({"op": "EqNear", "a": rng.choice([1, 2])})     # ... and against a copy that is off by one ulp
    return ops, 2


def ops_eq_built(rng, d):
    """Stack.build / Fraction.build results compared with their pickle clone, their JSON reload and a second build
    from the same sources: equal content (a built Stack has NaN thresholds) is equal"""
    al = DR.Alphabet(d)
    ops = [{"op": "New", "s": 1, "d": d}, {"op": "New", "s": 2, "d": d}]
    for _ in range(rng.randint(0, 4)):
        ops.append({"op": "Fill", "s": rng.choice([1, 2]), "x": al.datum(rng), "w": rng.choice(DR.POSWEIGHTS)})
    if rng.random() < 0.7:
        mk = lambda t: {"op": "StackBuild", "t": t, "srcs": [1, 2, 1][:rng.choice([1, 2, 3])]}  # noqa: E731
    else:
        mk = lambda t: {"op": "FractionBuild", "t": t, "a": 1, "b": 2}  # noqa: E731
    b = mk(3)
    ops.append(b)
    ops.append(dict(b, t=4))
    ops.append({"op": "Eq", "a": 3, "b": 4, "must": True})
    ops.append({"op": "Drop", "s": 4})
    ops.append({"op": rng.choice(["Pickle", "Copy"]), "t": 4, "a": 3})
    ops.append({"op": "Eq", "a": 3, "b": 4, "must": True})
    ops.append({"op": "Drop", "s": 4})
    ops.append({"op": "Drop", "s": 3})
    return ops, 4


def ops_eq_history(rng, d, cats=DR.CATS):
    """comparisons interleaved with further fills of values the aggregators already hold (an == must not remember
    anything about an earlier comparison)"""
    al = DR.Alphabet(d, cats)
    seen = [(al.datum(rng), rng.choice(DR.POSWEIGHTS)) for _ in range(rng.randint(1, 3))]
    ops = [{"op": "New", "s": 1, "d": d}, {"op": "New", "s": 2, "d": d}]
    for x, w in seen:
        ops.append({"op": "Fill", "s": 1, "x": x, "w": w})
        ops.append({"op": "Fill", "s": 2, "x": x, "w": w})
    ops.append({"op": "Eq", "a": 1, "b": 2, "must": False})
    x, w = rng.choice(seen)
    ops.append({"op": "Fill", "s": 1, "x": x, "w": w})                 # a value it already holds
    ops.append({"op": "Eq", "a": 1, "b": 2, "must": False})            # contents differ now
    ops.append({"op": "Copy", "t": 3, "a": 1})
    ops.append({"op": "Eq", "a": 1, "b": 3, "must": True})             # equal to its own copy
    ops.append({"op": "Fill", "s": 2, "x": x, "w": w})
    ops.append({"op": "Eq", "a": 2, "b": 3, "must": False})
    ops.append({"op": "Pickle", "t": 3, "a": 2})
    ops.append({"op": "Eq", "a": 3, "b": 2, "must": True})
    return ops, 3


def trailing_variant(rng, d):
    """a descriptor that differs from d by one extra trailing bin / threshold / centre / label (or None)"""
    cands = []
    for path, n in D.walk(d):
        k = n["k"]
        if k == "Stack":
            cands.append((path, dict(n, thresholds=n["thresholds"] + [Q(frac(n["thresholds"][-1]) + 2)])))
        elif k == "IrregularlyBin":
            cands.append((path, dict(n, edges=n["edges"] + [Q(frac(n["edges"][-1]) + 2)])))
        elif k == "CentrallyBin":
            cands.append((path, dict(n, centers=n["centers"] + [Q(frac(n["centers"][-1]) + 4)])))
        elif k in ("Index", "Branch"):
            cands.append((path, dict(n, vals=n["vals"] + [n["vals"][-1]])))
        elif k in ("Label", "UntypedLabel"):
            cands.append((path, dict(n, pairs=dict(n["pairs"], zz=list(n["pairs"].values())[-1]))))
    if not cands:
        return None
    path, new = rng.choice(cands)
    return D.replace_at(d, path, new)


def ops_eq_trailing(rng, d, d2):
    """two aggregators whose structures differ by one trailing element, filled with data that all fall into the
    common part"""
    al = DR.Alphabet(d)
    ops = [{"op": "New", "s": 1, "d": d}, {"op": "New", "s": 2, "d": d2}]
    for _ in range(rng.randint(0, 3)):
        x, w = al.datum(rng), rng.choice(DR.POSWEIGHTS)
        x["x"] = rng.choice([Q(-1), Q(0)])
        x["y"] = rng.choice([Q(-1), Q(0)])
        ops.append({"op": "Fill", "s": 1, "x": x, "w": w})
        ops.append({"op": "Fill", "s": 2, "x": x, "w": w})
    ops.append({"op": "Eq", "a": 1, "b": 2, "must": False})
    ops.append({"op": "Eq", "a": 2, "b": 1, "must": False})
    ops.append({"op": "EqNear", "a": rng.choice([1, 2])})     # ... and against a copy that is off by one ulp
    return ops, 2


# ------------------------------------------------------------------------------------------------
# C10: incompatible merges
LEAFS = ["Count", "Sum", "Average", "Deviate", "Minimize", "Maximize", "Bag"]


def variants(rng, d):
    """all single-parameter structural variants of d at every depth: list of (what, descriptor)"""
    out = []
    for path, n in D.walk(d):
        k = n["k"]

        def put(what, new):
            out.append(("%s@%s" % (what, "/".join(map(str, path))), D.replace_at(d, path, new)))

        if k == "Bin":
            put("num", dict(n, num=n["num"] + 1))
            put("lo", dict(n, lo=Q(frac(n["lo"]) - 1)))
            put("hi", dict(n, hi=Q(frac(n["hi"]) + 1)))
        elif k == "SparselyBin":
            put("width", dict(n, width=Q(frac(n["width"]) * 2)))
            put("origin", dict(n, origin=Q(frac(n["origin"]) + 1)))
        elif k == "CentrallyBin":
            cs = list(n["centers"])
            put("center", dict(n, centers=cs[:-1] + [Q(frac(cs[-1]) + 1)]))
            put("ncenters", dict(n, centers=cs + [Q(frac(cs[-1]) + 2)]))
            put("dupcenter", dict(n, centers=cs + [cs[-1]]))      # the same SET of centres, a different list
        elif k == "IrregularlyBin":
            es = list(n["edges"])
            put("edge", dict(n, edges=es[:-1] + [Q(frac(es[-1]) + 1)]))
            put("nedges", dict(n, edges=es + [Q(frac(es[-1]) + 2)]))
            if len(es) >= 2 and es != es[::-1]:
                put("edgeorder", dict(n, edges=es[::-1]))
        elif k == "Stack":
            ts = list(n["thresholds"])
            put("threshold", dict(n, thresholds=ts[:-1] + [Q(frac(ts[-1]) + 1)]))
            put("nthresholds", dict(n, thresholds=ts + [Q(frac(ts[-1]) + 2)]))
            if len(ts) >= 2 and ts != ts[::-1]:
                put("thresholdorder", dict(n, thresholds=ts[::-1]))       # the same SET of cuts in another order
            if len(ts) >= 2 and ts[0] != ts[-1]:
                # the same set of cuts, the same number of bins, another multiplicity: [1,1,3] against [1,3,3]
                for pth, nn in [(path, n)]:
                    a = dict(nn, thresholds=[ts[0]] + ts)
                    b = dict(nn, thresholds=ts + [ts[-1]])
                    out.append(("thresholdmult@%s" % "/".join(map(str, pth)), D.replace_at(d, pth, b), D.replace_at(d, pth, a)))
        elif k == "Bag":
            parent_ = D.node_at(d, path[:-1]) if path else None
            if parent_ is None or parent_["k"] not in ("Label", "Index"):   # those refuse mixed Bag ranges at construction
                put("range", dict(n, range={"N": "S", "S": "N", "N2": "N"}[n["range"]], q="c" if n["range"] == "N" else "x"))
        elif k in ("Label", "UntypedLabel"):
            keys = list(n["pairs"])
            put("labelset", dict(n, pairs=dict(n["pairs"], zz=n["pairs"][keys[-1]])))
            ren = {("zz" if kk == keys[-1] else kk): v for kk, v in n["pairs"].items()}
            put("labelname", dict(n, pairs=ren))
        elif k in ("Index", "Branch"):
            put("size", dict(n, vals=n["vals"] + [n["vals"][-1]]))
        # kind of this node replaced by another primitive
        if k in LEAFS:
            other = rng.choice([x for x in LEAFS if x != k])
            new = {"Count": D.Count(), "Bag": D.Bag("x", "N")}.get(other) or getattr(D, other)("x")
            # Label / Index need homogeneous children: replacing one child there is not constructible
            parent = D.node_at(d, path[:-1]) if path else None
            if parent is None or parent["k"] not in ("Label", "Index"):
                put("kind", new)
        elif path == ():
            put("kind", D.Sum("x") if k != "Sum" else D.Count())
    return out


def nested_sparse_tree(rng):
    """sparse containers inside sparse containers: bins present on one side only are adopted, so incompatibilities
    below them are only found if the library compares the sub-aggregators explicitly"""
    leaf = rng.choice([D.Bin(2, 0, 4, "y"), D.Bin(2, 0, 4, "y", D.Sum("x")), D.Sum("y"), D.CentrallyBin([0, 2, 4], "y"),
                       D.Stack([1, 3], "y"), D.Bag("y", "N")])
    inner = rng.choice([D.Categorize("c", leaf), D.SparselyBin(2, "y", leaf), D.SparselyBin(1, "x", leaf)])
    return rng.choice([D.Categorize("c", inner), D.SparselyBin(2, "x", inner), D.Bin(2, 0, 4, "x", inner),
                       D.Label(a=inner, b=inner)])


def ops_incompat(rng, d, d2):
    al, al2 = DR.Alphabet(d), DR.Alphabet(d2)
    ops = [{"op": "New", "s": 1, "d": d}, {"op": "New", "s": 2, "d": d2}]
    if rng.random() < 0.7:
        for _ in range(rng.randint(1, 3)):
            s = rng.choice([1, 2])
            ops.append({"op": "Fill", "s": s, "x": (al if s == 1 else al2).datum(rng), "w": rng.choice(DR.POSWEIGHTS)})
    for s in (1, 2):
        if rng.random() < 0.3:   # operands that went through JSON (no value templates any more)
            ops.append({"op": "Reload", "t": s, "a": s, "via": "dict"})
    order = rng.sample(["ab", "ba", "iab", "iba"], 4)
    for o in order[: rng.randint(1, 4)]:
        if o == "ab":
            ops.append({"op": "Add", "t": 3, "a": 1, "b": 2})
        elif o == "ba":
            ops.append({"op": "Add", "t": 3, "a": 2, "b": 1})
        elif o == "iab":
            ops.append({"op": "IAdd", "a": 1, "b": 2})
        else:
            ops.append({"op": "IAdd", "a": 2, "b": 1})
    return ops, 3


# ------------------------------------------------------------------------------------------------
# C12: failing fills
def single_path_tree(rng, depth):
    leaf = rng.choice(K.LEAF_MAKERS)(rng)
    if depth <= 1:
        return leaf
    sub = single_path_tree(rng, depth - 1)
    q = rng.choice("xy")
    k = rng.randrange(6)
    if k == 0:
        return D.Bin(2, 0, 4, q, sub, under=rng.choice(K.LEAF_MAKERS)(rng), nan=rng.choice(K.LEAF_MAKERS)(rng))
    if k == 1:
        return D.SparselyBin(2, q, sub)
    if k == 2:
        return D.CentrallyBin([0, 2, 4], q, sub)
    if k == 3:
        return D.IrregularlyBin([1, 3], q, sub)
    if k == 4:
        return D.Categorize("c", sub)
    return D.Select("s", sub)


def ops_failing(rng, d):
    """a stream in which a random subset of records makes some quantity fail (exception or wrong type)"""
    d = D.assign_fids(d)
    fids = [n["fid"] for _, n in D.walk(d) if n.get("fid")]
    al = DR.Alphabet(d)
    ops = [{"op": "New", "s": 1, "d": d}]
    for _ in range(rng.randint(2, 7)):
        x = al.datum(rng)
        if fids and rng.random() < 0.45:
            x["fa"] = rng.choice(fids)
            x["fm"] = rng.choice(["raise", "wrong", "npstr", "complex"])
        # also weights that are not exactly representable: a rollback by subtraction would not restore them
        ops.append({"op": "Fill", "s": 1, "x": x, "w": rng.choice(DR.POSWEIGHTS + [Q(0), Q(F(1, 10)), Q(F(3, 10)), Q(F(1, 3))])})
        if x["fa"] and rng.random() < 0.6:
            # the same record again, good this time: it takes the same route (e.g. into the bin the failed fill
            # would have created)
            ops.append({"op": "Fill", "s": 1, "x": dict(x, fa="", fm=""), "w": rng.choice(DR.POSWEIGHTS)})
    return ops, 1, d


# ------------------------------------------------------------------------------------------------
# C16: one aggregator at two positions
def shared_trees(rng):
    """(descriptor, really shared?) pairs: siblings in every collection kind, cousins under different parents,
    Select cuts, and legitimately shared sparse templates"""
    leaf = rng.choice([D.Count(), D.Sum("x"), D.Bin(2, 0, 4, "x"), D.Average("y"), D.SparselyBin(2, "x")])
    X = dict(leaf, share="X")
    other = rng.choice([D.Count(), D.Sum("y")])
    k = rng.randrange(19)
    if k >= 14:
        # a container's own child (a bin, a flow, the numerator, the cut) taken out of it and installed at a second
        # position as well; the container is as constructed, or a copy() / zero() / sum of it
        val = rng.choice([D.Count(), D.Sum("y"), D.Bin(2, 0, 4, "y")])
        hosts = [(D.Bin(2, 0, 4, "x", val), ["first", "last", "nan", "under", "over"], val, D.Count()),
                 (D.CentrallyBin([0, 2, 4], "x", val), ["first", "last", "nan"], val, D.Count()),
                 (D.IrregularlyBin([1, 3], "x", val), ["first", "last", "nan"], val, D.Count()),
                 (D.Stack([1, 3], "x", val), ["first", "last", "nan"], val, D.Count()),
                 (D.Fraction("s", val), ["num", "den"], val, val),
                 (D.Select("s", val), ["cut"], val, val)]
        host, poss, vd, fd = rng.choice(hosts)
        pos = rng.choice(poss)
        child = fd if pos in ("nan", "under", "over") else vd
        H = dict(host, xid="E", xpos=pos, xvia=rng.choice(["", "", "copy", "zero", "add"]), xpre=rng.random() < 0.4)
        E = dict(child, share="E")
        other = rng.choice([D.Count(), D.Sum("y")])
        if k == 14:
            return D.UntypedLabel(a=H, b=E), True
        if k == 15:
            return D.Branch(H, other, E), True
        if k == 16:   # below another container
            return D.UntypedLabel(a=H, b=D.Select("s", E)), True
        if k == 17:
            return D.Branch(D.Branch(H, other), D.Label(p=E)), True
        # the child taken out but installed nowhere else: nothing is shared
        return D.UntypedLabel(a=H, b=dict(child, share="F")), False
    if k >= 9:
        # objects installed at flow positions by assignment (h.nanflow = obj): the constructors copy their flow
        # arguments, so this is the only way one object gets to sit there.  The interesting case is an object that
        # EQUALS the container's value template (an unfilled Count next to a Count template)
        XI = dict(rng.choice([D.Count(), D.Count(), D.Sum("x"), D.Sum("y")]), share="X", inst=True)
        XP = dict(XI, inst=False)
        val = rng.choice([D.Count(), D.Sum("y")])
        host = rng.choice([lambda f: D.SparselyBin(2, "x", val, nan=f), lambda f: D.CentrallyBin([0, 2, 4], "x", val, nan=f),
                           lambda f: D.IrregularlyBin([1, 3], "x", val, nan=f), lambda f: D.Stack([1, 3], "x", val, nan=f),
                           lambda f: D.Bin(2, 0, 4, "x", val, nan=f), lambda f: D.Bin(2, 0, 4, "x", val, under=f),
                           lambda f: D.Bin(2, 0, 4, "x", val, over=f)])
        if k == 9:    # a flow and a sibling of its container
            return D.UntypedLabel(h=host(XI), total=XP), True
        if k == 10:   # the same, the sibling first
            return D.Branch(XP, host(XI)), True
        if k == 11:   # one object as a flow of two containers
            return D.Branch(host(XI), host(XI)), True
        if k == 12:   # two flows of one Bin
            return D.Branch(D.Bin(2, 0, 4, "x", val, under=XI, nan=XI), other), True
        # different objects installed: nothing is shared
        return D.Branch(host(XI), dict(XP, share="Y")), False
    if k == 0:
        return D.Branch(X, X), True
    if k == 1:
        return D.Index(X, X), True
    if k == 2:
        return D.Label(a=X, b=X), True
    if k == 3:
        return D.UntypedLabel(a=X, b=other, c=X), True
    if k == 4:  # cousins
        return D.Branch(D.Branch(X, other), D.Branch(other, X)), True
    if k == 5:  # cut of two selects
        return D.UntypedLabel(a=D.Select("s", X), b=D.Select("s", X)), True
    if k == 6:  # cousin below a select and a collection
        return D.Branch(D.Select("s", X), other, D.Label(p=X)), True
    if k == 7:  # legitimately shared templates: never rejected
        T = dict(D.Sum("y"), share="T")
        return D.Branch(D.SparselyBin(2, "x", T), D.Categorize("c", T), D.Bin(2, 0, 4, "x", T)), False
    # shared object below copying positions: the parent copies it, nothing is shared
    return D.Branch(D.Bin(2, 0, 4, "x", X), D.Bin(2, 0, 4, "y", X)), False


def ops_argshare(rng):
    """C06: ONE aggregator object with internal structure (a Bag, a Bin, a Label, a Categorize) passed as the flow or
    the value of TWO containers: the constructors copy what they are given, so the two containers (and the argument)
    share nothing - filling one leaves the other alone"""
    X = dict(rng.choice([D.Bag("y", "N"), D.Bin(2, 0, 4, "y"), D.Label(a=D.Sum("y")), D.Categorize("c"),
                         D.SparselyBin(2, "y"), D.Bag("c", "S")]), share="A")
    val = rng.choice([D.Count(), D.Sum("y")])

    def host():
        k = rng.randrange(8)
        if k == 0:
            return D.Bin(2, 0, 4, "x", val, under=X)
        if k == 1:
            return D.Bin(2, 0, 4, "x", val, over=X, nan=X)
        if k == 2:
            return D.Bin(2, 0, 4, "x", X)
        if k == 3:
            return D.SparselyBin(2, "x", val, nan=X)
        if k == 4:
            return D.CentrallyBin([0, 2, 4], "x", val, nan=X)
        if k == 5:
            return D.IrregularlyBin([1, 3], "x", X, nan=X)
        if k == 6:
            return D.Stack([1, 3], "x", val, nan=X)
        return D.Categorize("c", X)

    def twice():      # (an Index holds values of one type)
        h = host()
        return D.Index(h, h)

    d = rng.choice([lambda: D.Branch(host(), host()), lambda: D.UntypedLabel(a=host(), b=host()), twice])()
    al = DR.Alphabet(d, DR.CATS_NP)
    ops = [{"op": "NewShared", "s": 1, "d": d}]
    for _ in range(rng.randint(2, 6)):
        x = al.datum(rng)
        if rng.random() < 0.5:
            x["x"] = rng.choice([NAN, Q(-3), Q(9)])      # into the flows
        ops.append({"op": "Fill", "s": 1, "x": x, "w": rng.choice(DR.POSWEIGHTS)})
    ops.append({"op": "Read", "a": 1, "which": "toJson"})
    return ops, 1, d


def ops_shared(rng):
    d, really = shared_trees(rng)
    if d["k"] in ("Label", "UntypedLabel", "Index", "Branch") and rng.random() < 0.25:
        d = dict(d, ed=rng.choice([Q(2), Q(1), Q(F(1, 2))]))      # assembled with .ed(entries > 0, ...)
    al = DR.Alphabet(d, DR.CATS_NP)
    ops = [{"op": "NewShared", "s": 1, "d": d}]
    for _ in range(rng.randint(1, 4)):
        if rng.random() < 0.7:
            ops.append({"op": "Fill", "s": 1, "x": al.datum(rng), "w": rng.choice(DR.POSWEIGHTS)})
        else:
            rows = [al.datum(rng) for _ in range(rng.randint(1, 3))]
            ops.append({"op": "FillNumpy", "s": 1, "rows": rows, "wf": "one"})
    return ops, 1, d


# ------------------------------------------------------------------------------------------------
# C13: derived views
def view_tree(rng):
    """a tree whose root is one of the four numeric binning primitives, a Categorize, or a 2-D histogram"""
    child = rng.choice([D.Count(), D.Count(), D.Sum("y"), D.Average("y"), D.Bin(2, 0, 4, "y"), D.Minimize("y")])
    k = rng.randrange(9)
    if k == 0:
        return D.Bin(rng.choice([2, 4]), 0, 4, "x", child), "1d"
    if k == 1:
        return D.Bin(3, -1, 2, "x", child), "1d"
    if k == 2:
        return D.SparselyBin(rng.choice([1, 2, F(1, 2)]), "x", child, origin=rng.choice([0, 1])), "1d"
    if k == 3:
        return D.CentrallyBin(rng.choice([[0, 2, 4], [-1, 1, 2, 5]]), "x", child), "1d"
    if k == 4:
        return D.IrregularlyBin(rng.choice([[1, 3], [0, 2, 4], [1, 1, 3], [0, 2, 2, 2, 4]]), "x", child), "1d"
    if k == 5:
        return D.Categorize("c", child), "cat"
    if k == 6:
        return D.Bin(*rng.choice([(2, 0, 4), (3, -1, 2), (4, 0, 4)]), "x", D.Bin(2, 0, 4, "y")), "2d"
    if k == 7:
        return D.SparselyBin(rng.choice([1, 2]), "x", D.SparselyBin(rng.choice([1, 2]), "y")), "2d"
    return D.SparselyBin(1, "x", child, origin=F(1, 2)), "1d"


def ops_views(rng):
    d, kind = view_tree(rng)
    if d["k"] == "Bin" and frac(d["lo"]) >= frac(d["hi"]):
        d = dict(d, lo=Q(0), hi=Q(4))
    al = DR.Alphabet(d)
    fin = [v for v in al.xs if v[1] != 0]
    ops = [{"op": "New", "s": 1, "d": d}]
    nfill = rng.randint(0 if kind != "2d" else 1, 6)
    for _ in range(nfill):
        x = al.datum(rng)
        if d["k"] == "SparselyBin" or kind == "2d":
            x["x"] = rng.choice(fin)  # saturated sparse indexes are outside the view model
            if kind == "2d":
                x["y"] = rng.choice([v for v in al.ys if v[1] != 0])
        ops.append({"op": "Fill", "s": 1, "x": x, "w": rng.choice(DR.POSWEIGHTS)})
        if rng.random() < 0.3:
            ops.append(_view_op(rng, d, kind, fin, al))
        if rng.random() < 0.15:
            ops.append(DR.acc_op(rng, d, 1, al))
    for _ in range(rng.randint(1, 4)):
        ops.append(_view_op(rng, d, kind, fin, al))
    if rng.random() < 0.5:
        ops.append(DR.acc_op(rng, d, 1, al))
    return ops, 1, d


def insert_views(rng, d, ops, slots=(1, 2)):
    """C06: read-only view calls (bin_entries / bin_edges / ... / labels) on the first slots of a generic history, at
    random positions after the slots exist - a view must not change what it describes"""
    kind = {"Bin": "1d", "SparselyBin": "1d", "CentrallyBin": "1d", "IrregularlyBin": "1d", "Categorize": "cat"}.get(d["k"])
    if kind is None:
        return ops
    if d["k"] in ("Bin", "SparselyBin") and d["value"]["k"] == d["k"] and rng.random() < 0.5:
        kind = "2d"
    al = DR.Alphabet(d)
    fin = [v for v in al.xs if v[1] != 0]
    if len(fin) < 2:
        return ops
    if any(n["k"] == "SparselyBin" for _, n in D.walk(d)):
        # a sparse histogram that received +-inf holds the saturated indexes -2^63 / 2^63-1: its full-range views
        # would allocate one entry per index in between (outside the view model, and outside this machine's memory)
        data = [o["x"] for o in ops if "x" in o] + [r for o in ops if "rows" in o for r in o["rows"]]
        if any(isinstance(v, (list, tuple)) and len(v) == 2 and v[1] == 0 and v[0] != 0 for x in data for v in x.values()):
            return ops
    first = max(i for i, o in enumerate(ops) if o["op"] == "New" and o["s"] in slots) + 1
    out = list(ops)
    for _ in range(rng.randint(1, 3)):
        v = dict(_view_op(rng, d, kind, fin, al), a=rng.choice(slots))
        # (not between a build operation and the Drop of its result: until then the result shares its arguments)
        where = [p for p in range(first, len(out) + 1) if out[p - 1]["op"] not in ("StackBuild", "FractionBuild", "Histogram")]
        out.insert(rng.choice(where), v)
    return out


def _view_op(rng, d, kind, fin, al):
    if kind == "cat":
        return {"op": "CatView", "a": 1, "probe": rng.sample(["a", "b", "zz", "NaN", "entries"], rng.randint(0, 3))}
    if kind == "2d" and rng.random() < 0.7:
        return {"op": "Grid2D", "a": 1}
    qs = sorted(fin, key=frac)
    mode = rng.choice(["none", "both", "both", "lo", "hi"])
    op = {"op": "View", "a": 1, "hasLo": False, "qlo": Q(0), "hasHi": False, "qhi": Q(0),
          "xs": [rng.choice(al.xs) for _ in range(rng.randint(0, 3))]}
    op["xs"] = [x for x in op["xs"] if x != NAN]
    if mode in ("both", "lo"):
        op["hasLo"], op["qlo"] = True, rng.choice(qs[:-1])
    if mode in ("both", "hi"):
        cands = [q for q in qs if not op["hasLo"] or frac(q) > frac(op["qlo"])]
        op["hasHi"], op["qhi"] = True, rng.choice(cands)
    return op


# ------------------------------------------------------------------------------------------------
# C08: scaling reloaded containers
def ops_scale_reloaded(rng, d):
    """scale a container reloaded from JSON (also while it is still empty), then merge / re-serialise / compare with
    scaling before the round trip"""
    al = DR.Alphabet(d)
    ops = [{"op": "New", "s": 1, "d": d}]
    for _ in range(rng.choice([0, 0, 1, 3])):
        x = al.datum(rng)
        if rng.random() < 0.4:
            x["x"] = NAN  # only the nanflow gets filled: sparse containers stay without bins
        ops.append({"op": "Fill", "s": 1, "x": x, "w": rng.choice(DR.POSWEIGHTS)})
    ops.append({"op": "Reload", "t": 2, "a": 1, "via": rng.choice(["dict", "string"])})
    f = rng.choice(DR.FACTORS)
    ops.append({"op": "Mul", "t": 3, "a": 2, "f": f, "side": rng.choice("lr")})
    ops.append({"op": "Read", "a": 3, "which": "toJson"})
    ops.append({"op": "Mul", "t": 4, "a": 1, "f": f, "side": "l"})
    ops.append({"op": "Reload", "t": 4, "a": 4, "via": "dict"})      # scaling commutes with the round trip
    ops.append({"op": "Eq", "a": 3, "b": 4, "must": False})
    ops.append({"op": "Add", "t": 4, "a": 3, "b": 2})
    ops.append({"op": "Add", "t": 4, "a": 2, "b": 3})
    ops.append({"op": "Reload", "t": 4, "a": 3, "via": "dict"})
    return ops, 4


# ------------------------------------------------------------------------------------------------
# C09: pairs that differ in exactly one child
def ops_eq_child(rng, d):
    """two aggregators filled with one datum per routing class of the root (every edge, between edges, outside, NaN,
    +-inf); in the second, the secondary quantity of exactly ONE of those data is changed, so the pair differs in
    exactly one child (first / middle / last bin, a flow, one sparse key, one category ...)"""
    al = DR.Alphabet(d)
    xs = al.crit_x + [Q(frac(al.crit_x[0]) - 1), Q(frac(al.crit_x[-1]) + 1)] if al.crit_x else [Q(0), Q(1)]
    xs = xs + [NAN, (1, 0), (-1, 0)]
    stream = []
    for i, xv in enumerate(xs):
        stream.append({"x": xv, "y": Q(1), "s": Q(1), "c": ["a", "b", "entries", "NaN"][i % 4], "fa": "", "fm": ""})
    ops = [{"op": "New", "s": 1, "d": d}, {"op": "New", "s": 2, "d": d}]
    j = rng.randrange(len(stream))
    for i, x in enumerate(stream):
        ops.append({"op": "Fill", "s": 1, "x": x, "w": Q(1)})
        x2 = dict(x, y=Q(3)) if i == j else x
        ops.append({"op": "Fill", "s": 2, "x": x2, "w": Q(1)})
    ops.append({"op": "Eq", "a": 1, "b": 2, "must": False})
    ops.append({"op": "Eq", "a": 2, "b": 1, "must": False})
    ops.append({"op": "EqNear", "a": rng.choice([1, 2])})     # ... and against a copy that is off by one ulp
    return ops, 2


# ------------------------------------------------------------------------------------------------
# C14: DataFrame filling
F_VALS = [Q(v) for v in (F(-2), F(-1), F(0), F(1), F(2), F(3), F(4), F(5), F(1, 2), F(5, 2))] + [NAN]
I_VALS = [Q(v) for v in range(-2, 6)]
T_VALS = [Q(v) for v in (-30, -1, 0, 1, 29, 30, 31, 59, 60, 90, 7, 14)]


def frame_rows(rng, n):
    return [{"f": rng.choice(F_VALS), "g": rng.choice(F_VALS), "i": rng.choice(I_VALS), "j": rng.choice(I_VALS),
             "b": rng.choice(["True", "False"]), "t": rng.choice(T_VALS), "x": Q(0), "y": Q(0), "s": Q(1), "c": "a",
             "fa": "", "fm": ""} for _ in range(n)]


def num_spec(rng, col, last):
    """an explicit bin specification for a numeric / timestamp column (abstract numbers)"""
    t = col == "t"
    kinds = ["sparse", "sparse", "bin", "edges", "centers", "thresholds"] + (["sum", "average", "deviate", "minimize", "maximize"] if last and not t else [])
    k = rng.choice(kinds)
    if k == "sparse":
        return {"binWidth": Q(rng.choice([1, 2, F(1, 2)] if not t else [1, 7, 30])), "origin": Q(rng.choice([0, 1]))}
    if k == "bin":
        n, lo, hi = rng.choice([(2, 0, 4), (4, 0, 4), (3, -1, 2)] if not t else [(2, 0, 60), (3, 0, 90), (4, -30, 90)])
        return {"num": n, "low": Q(lo), "high": Q(hi)}
    if k == "edges":
        return {"edges": [Q(v) for v in (rng.choice([[1, 3], [0, 2, 4]]) if not t else [0, 30, 60])]}
    if k == "centers":
        return {"centers": [Q(v) for v in (rng.choice([[0, 2, 4], [-1, 1, 2, 5]]) if not t else [0, 30, 90])]}
    if k == "thresholds":
        return {"thresholds": [Q(v) for v in ([1, 3] if not t else [0, 30])]}
    return {k: True}


def ops_frame(rng):
    n = rng.randint(1, 10)
    rows = frame_rows(rng, n)
    mode = rng.choice(["unit", "unit", "specs", "specs", "speclist", "auto", "time"])
    if mode == "time":
        cols = ["t", rng.choice(["f", "i", "b"])] + ([rng.choice(["g", "j"])] if rng.random() < 0.3 else [])
    elif mode == "auto":
        cols = rng.sample(["i", "j", "b"], rng.choice([1, 2]))
    else:
        cols = rng.sample(["f", "g", "i", "j", "b", "t"], rng.choice([1, 1, 2, 2, 3]))
    op = {"op": "MH", "t": 1, "rows": rows, "cols": cols, "features": [cols], "binning": "auto" if mode == "auto" else "unit",
          "given": None, "time_axis": "", "reuse": 0}
    if mode in ("specs", "speclist"):
        num_cols = [c for c in cols if c != "b"]
        if mode == "specs":
            op["given"] = {c: num_spec(rng, c, c == cols[-1]) for c in num_cols if rng.random() < 0.8}
        elif len(cols) > 1:
            lst = [({} if c == "b" or rng.random() < 0.35 else num_spec(rng, c, c == cols[-1])) for c in cols]
            op["given"] = {":".join(cols): lst}
            for c, sp in zip(cols, lst):
                # an empty placeholder in the per-feature list falls back to the column's own specification
                if not sp and c != "b" and rng.random() < 0.7:
                    op["given"][c] = num_spec(rng, c, c == cols[-1])
    if mode == "time":
        op["time_axis"] = "t"
        op["time_width"] = rng.choice(["30d", "7d", "1d"])
    if rng.random() < 0.3:
        op["index"] = rng.sample(range(50), n) if rng.random() < 0.6 else [rng.randrange(3) for _ in range(n)]
    ops = [op]
    # chunks binned with the returned specifications add up to the whole
    k = rng.randint(1, min(3, n))
    cuts = sorted(rng.sample(range(1, n), k - 1)) if k > 1 else []
    bounds = [0] + cuts + [n]
    slots = []
    labels = rng.choice(["default", "slice", "slice", "shuffled", "repeated"])
    for ci in range(k):
        ch = rows[bounds[ci]:bounds[ci + 1]]
        cop = dict(op, t=2 + ci, rows=ch, reuse=1)
        cop.pop("index", None)
        if labels == "slice":        # df.iloc[a:b]: the chunk keeps the row labels of the whole frame
            cop["index"] = list(range(bounds[ci], bounds[ci + 1]))
        elif labels == "shuffled":   # a filtered / shuffled frame
            cop["index"] = rng.sample(range(100), len(ch))
        elif labels == "repeated":   # pd.concat without ignore_index: labels occur several times
            cop["index"] = [rng.randrange(2) for _ in ch]
        ops.append(cop)
        slots.append(2 + ci)
    acc = slots[0]
    for s in slots[1:]:
        ops.append({"op": "Add", "t": 5, "a": acc, "b": s})
        acc = 5
    ops.append({"op": "Eq", "a": 1, "b": acc, "must": False})
    return ops, 5, cols


# ------------------------------------------------------------------------------------------------
# C02 / C05: systematic enumeration of fill transitions (one implementation test per specification transition)
def transition_alphabet(d):
    """one datum per routing class of every field in use: every edge / centre / midpoint / threshold, points between and
    outside, NaN and +-inf; the secondary field and the selection / category fields take a few representative values"""
    from . import model

    return model.alphabet(d, "full")


def ops_transitions(d, data, weights, cap=None, rng=None):
    """all two-step histories New; Fill(a, w1); Fill(b, w2) over the alphabet (the pre-state classes are the states
    reachable by one fill, plus the empty state); optionally a seeded sample of `cap` of them"""
    pairs = [(a, w1, b, w2) for a in data for w1 in weights for b in data for w2 in weights]
    if cap and len(pairs) > cap:
        pairs = rng.sample(pairs, cap)
    for a, w1, b, w2 in pairs:
        yield [{"op": "New", "s": 1, "d": d}, {"op": "Fill", "s": 1, "x": a, "w": w1}, {"op": "Fill", "s": 1, "x": b, "w": w2}]
