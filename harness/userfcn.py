"""C17, part 1: histories of wrapper applications (serializable / cached / named) and calls on the real
histogrammar.util functions, recorded for validation against spec/HgUserFcnTrace.tla."""

import sys

import numpy as np

EXPR = "x * 2 + 1"
EMPTY = "ne"      # the abstract value of named("", f): the model's "" means `no name`


def _abstract_name(name, base):
    if name is None:
        return ""
    if name == "":
        return EMPTY      # an explicit empty name is a name
    if base == "def" and name == "fbase":
        return "auto:def"
    if base == "str" and name == EXPR:
        return "auto:str"
    return str(name)


def _obs(obj, base):
    from histogrammar.util import CachedFcn, UserFcn

    if isinstance(obj, UserFcn):
        return {"wrapped": True, "cached": isinstance(obj, CachedFcn), "name": _abstract_name(obj.name, base)}
    return {"wrapped": False, "cached": False, "name": ""}


def make_base(base, calls):
    if base == "lam":
        return eval("lambda x, shift=0.0: (CALLS.append(1), x * 2 + 1 + shift)[1]", {"CALLS": calls})
    if base == "def":
        ns = {"CALLS": calls}
        exec("def fbase(x, shift=0.0):\n    CALLS.append(1)\n    return x * 2 + 1 + shift\n", ns)
        return ns["fbase"]
    return EXPR


def gen_ops(rng):
    """two wrapper slots built from one underlying function by different application orders, with calls
    (repeated and changing arguments, scalars and arrays, identical and merely equal objects) in between"""
    ops = []
    for s in (1, 2):
        order = ["S", "C", "N"]
        rng.shuffle(order)
        order = order[: rng.choice([1, 2, 3, 3, 3])]
        if rng.random() < 0.4:
            order.insert(rng.randrange(len(order) + 1), rng.choice(["S", "C"]))  # idempotence
        wrapped = False
        for o in order:
            ops.append({"op": o, "s": s, "n": rng.choice(["n1", "n1", "n1", EMPTY])} if o == "N" else {"op": o, "s": s})
            wrapped = True
            for _ in range(rng.choice([0, 0, 1, 2, 3])):
                ops.append({"op": "Call", "s": s, "arg": rng.choice([1, 2, 3, 4, 5, 6, 5, 6, 7, 8, 9, 1, 7, 10, 10, 1]), "fresh": rng.random() < 0.5})
        if rng.random() < 0.5:
            ops.append({"op": "N", "s": s, "n": "n2"})  # a second name (raises iff one was given)
        for _ in range(rng.choice([1, 2, 4])):
            ops.append({"op": "Call", "s": s, "arg": rng.choice([1, 2, 3, 4, 5, 6, 5, 6, 7, 8, 9, 1, 7, 10, 10, 1]), "fresh": rng.random() < 0.5})
    ops.append({"op": "EqW", "s": 1})
    return ops


def record_one(job):
    repo = job.get("repo", "/repo")
    if sys.path[0] != repo:
        sys.path.insert(0, repo)
    from histogrammar.util import UserFcn, cached, named, serializable

    base = job["base"]
    calls = []
    f = make_base(base, calls)
    slots = {1: f, 2: f}
    # two scalars, two arrays, and -1.0 / -2.0 (distinct numbers whose Python hashes coincide)
    args = {1: 1.0, 2: 2.0, 3: np.array([1.0, 2.0]), 4: np.array([1.0, 3.0]), 5: -1.0, 6: -2.0,
            7: np.array([]), 8: np.array([1.0]), 9: np.array([1.0, 1.0]), 10: ("two", 1.0, 4.0)}
    events = []
    for op in job["ops"]:
        ev = dict(op)
        s = op["s"]
        out, exc = "ok", ""
        try:
            if op["op"] == "S":
                slots[s] = serializable(slots[s])
            elif op["op"] == "C":
                slots[s] = cached(slots[s])
            elif op["op"] == "N":
                slots[s] = named("" if op["n"] == EMPTY else op["n"], slots[s])
            elif op["op"] == "Call":
                a = args[op["arg"]]
                if op.get("fresh") and isinstance(a, np.ndarray):
                    a = a.copy()
                if not isinstance(slots[s], UserFcn):
                    continue
                if isinstance(a, tuple) and base == "str":
                    continue        # (a string expression takes the record only)
                before = len(calls)
                r = slots[s](a[1], a[2]) if isinstance(a, tuple) else slots[s](a)
                ev["ret"] = [int(v) for v in np.atleast_1d(r).tolist()]
                ev["ncalls"] = len(calls) - before
            elif op["op"] == "EqW":
                if not (isinstance(slots[1], UserFcn) and isinstance(slots[2], UserFcn)):
                    continue
                ev["res"] = bool(slots[1] == slots[2]) and bool(slots[2] == slots[1])
        except Exception as e:
            out, exc = "exc", type(e).__name__
            ev["msg"] = str(e)[:100]
        ev.update(out=out, exc=exc, obs=_obs(slots[s], base))
        ev.setdefault("ret", [])
        ev.setdefault("res", False)
        ev.setdefault("arg", 1)
        ev.setdefault("n", "")
        events.append(ev)
    return {"id": job["id"], "base": base, "events": events, "ops": job["ops"], "gamma": ["1", "0"], "nslots": 2,
            "sem": False, "kind": "userfcn", "root": base, "cut": ""}
