"""Regenerates MANIFEST.json from the table below (single source of truth for the interface)."""
import json
import os

VERIF = os.path.dirname(os.path.dirname(os.path.abspath(__file__)))

CLAIMED = {
    "C01": ("trace validation + TLC model checking of Merge/Sem homomorphism",
            "TLC checks on spec/HgSystem.tla that operational Fill/Merge/Scale equal the multiset semantics Sem in every reachable "
            "state (SemInv) and that + is commutative/associative with Zero as unit; partition/reduce histories recorded from "
            "the real library are validated event by event by TLC against spec/HgTrace.tla."),
    "C02": ("trace validation against operational Fill and denotational Sem (TLC)",
            "Every recorded fill is compared by TLC with HgTree!Fill and with HgSem!Sem of the ghost multiset; SemInv, "
            "FillCommutes and NullWeights are model-checked on the design."),
    "C05": ("trace validation with the WF invariant evaluated by TLC after every event",
            "HgTree!WF is an invariant of spec/HgSystem.tla (WFInv) and a clause of every event of every validated trace."),
    "C06": ("trace validation: frame condition and alias relation after every event (TLC)",
            "FrameOK is an action property of HgSystem; in traces the `frame` and `noshare` clauses are evaluated by TLC after "
            "every public call, and behaviours keep mutating results and sources afterwards."),
    "C07": ("trace validation of += against Merge (TLC)",
            "IAdd events must produce exactly Merge(a, b) in place, keep identity, leave b unchanged and share nothing."),
    "C08": ("trace validation of * against Scale + ScaleLaws model-checked (TLC)",
            "Mul events are compared by TLC with HgTree!Scale; the ghost multiset is rescaled so `sem` states that scaling equals "
            "refilling with scaled weights; continuations fill / merge / hash / serialise the result."),
    "C03": ("trace validation of fill.numpy against the row-wise fold (TLC), modulo zero-weight sparse bins",
            "FillNumpy events are compared by TLC with Strip(FoldFill(...)) - the fold of the row-wise Fill over the batch - "
            "for weight forms 1 / scalar / array, batches of 0..4 rows over the critical alphabets, and splits into "
            "successive batches (BatchSplit is model-checked); inputs are compared bytewise before/after."),
    "C04": ("trace validation of JSON reload (state, strictness, fixpoint, interchangeability) by TLC",
            "Reload events (via dict, string, file) must reproduce the content exactly, dump with allow_nan=False and be a "
            "fixpoint of toJson; reloaded slots then take part in +, *, zero(), copy(), += and further reloads like any other."),
    "C09": ("trace validation of == against content equality (TLC)",
            "Eq events log a==b, b==a, a!=b at tolerance 0 and 1e-12; TLC requires symmetry, negation, FALSE whenever the "
            "projected contents differ, TRUE along copy/pickle/reload lineage, and that tolerances only widen."),
    "C10": ("trace validation of rejected merges: outcome and unchanged operands (TLC, CompatD)",
            "For every single-parameter structural variant at every depth TLC requires + and += to raise (CompatD false) and "
            "both operands to stay exactly as they were."),
    "C11": ("trace validation of pickle clones and their continuations (TLC)",
            "Pickle events must reproduce content, stay fillable and keep equal to the original under identical further fills "
            "and merges, for lambda / def / string / named / cached quantities."),
    "C12": ("trace validation of failing fills: outcome and full rollback (TLC, Raises)",
            "HgTree!Raises decides from the routing path whether a fill reaches a failing quantity; such a fill must raise and "
            "leave every slot unchanged; the final state must equal Sem of the surviving records."),
    "C13": ("trace validation of the view accessors against the partition model Sel/ViewExpect (TLC)",
            "View events log num_bins, bin_entries, bin_edges, bin_centers, bin_width and bin_entries(xvalues) for full-range "
            "and sub-range queries; TLC compares them with the partition that Fill/Route use (HgViews!ViewExpect) and checks "
            "mutual consistency; Categorize labels/entries/mpv and the 2-D grid and x/y projections likewise."),
    "C14": ("trace validation of make_histograms against MakeHist = fold of Fill over the rows (TLC, HgFrame)",
            "MH events record make_histograms on frames with float(NaN)/int/bool/timestamp columns in unit, auto, explicit-spec "
            "and time_axis modes; TLC derives the primitive tree from the RETURNED bin specs (HgFrame!TreeOf) and requires the "
            "content to equal the fold of Fill over the rows, entries = rows, the frame unchanged, and chunks re-binned with "
            "the returned specs to add up to the whole (ghost multiset)."),
    "C15": ("TLC-enumerated single-point mutations of real documents, judged by the three-valued Parse (TLC)",
            "HgDoc!MutIds enumerates every single-point structural mutation (delete/add key, retype, rename type, drop "
            "list element, version) of documents produced by toJson; each mutant is fed to Factory.fromJson and TLC "
            "judges the outcome with HgParse!Parse: invalid documents must raise, valid ones must load and re-serialise "
            "to ToDoc(FromDoc(mutant)), unmutated documents must be accepted."),
    "C17": ("TLC model of the wrapper state machine + trace validation of wrapper/call histories and expression quantities",
            "spec/HgUserFcn.tla is model-checked for all application orders and call sequences (OrderIndependent, OneName, "
            "Transparent); recorded histories of serializable/cached/named and of calls with repeated/changing scalar and "
            "array arguments are validated by TLC (HgUserFcnTrace); aggregators built from a string expression and from the "
            "equivalent function receive the same dict / attribute / scalar records and are judged against HgTree!EvalE."),
    "C16": ("trace validation of shared-node detection (TLC, SharedFillable)",
            "HgTree!SharedFillable decides from the descriptor whether one object sits at two installed positions; filling "
            "such a tree must raise with no state change, on first and later fills, row-wise and vectorised; shared "
            "templates must never be rejected."),
}


def main():
    props = [json.loads(l)["id"] for l in open(os.path.join(VERIF, "properties.jsonl"))]
    checks = []
    for pid in props:
        if pid not in CLAIMED:
            continue
        tech, text = CLAIMED[pid]
        checks.append({
            "property_id": pid,
            "quick_cmd": "./check %s --tier quick" % pid,
            "thorough_cmd": "./check %s --tier thorough" % pid,
            "evidence_file": "/verif/evidence/%s.json" % pid,
            "replay_cmd_template": "./check %s --replay {path}" % pid,
            "engine": "tlc+conformance",
            "level_claimed": {"category": "model_checking", "text": text, "design_ref": "DESIGN.md section 6 (%s)" % pid},
            "level_note": "Trusted base: TLC 1.8.0; the projection pi and concretisation gamma of the harness (no aggregator "
                          "semantics); bounded models and the exact regime of DESIGN 3.1 / 7.",
            "technique": tech,
        })
    na = [{"property_id": p, "reason": "check not built yet in this session (see DESIGN.md build order); not claimed"}
          for p in props if p not in CLAIMED]
    m = {
        "version": 1,
        "setup_cmd": "./setup.sh",
        "hooks": {
            "guard": "HISTOGRAMMAR_VERIF",
            "enable": "no hooks are needed by any check: the library is sequential and public attributes expose the abstract "
                      "state (DESIGN 10); checks run /repo's working tree through PYTHONPATH",
            "baseline_off_cmd": "cd /repo && /venv/bin/python -m pytest -ra -q -p no:cacheprovider --timeout=900 "
                                "--continue-on-collection-errors",
            "source_commits": [],
            "add_only": True,
        },
        "engines": [{"name": "tlc+conformance", "path": "/verif/check", "serves_properties": sorted(CLAIMED),
                     "kind_free_text": "explicit TLA+ specification (spec/*.tla) checked with TLC; bound to the code by "
                                       "replaying TLC-generated behaviours and validating recorded traces with TLC "
                                       "(C17 additionally: Apalache proves the wrapper machine's invariants inductive)"}],
        "checks": checks,
        "not_applicable": na,
        "notes": "See DESIGN.md. Exit 0 held / 1 VIOLATION / 2 machinery failure.",
    }
    with open(os.path.join(VERIF, "MANIFEST.json"), "w") as f:
        json.dump(m, f, indent=1)


if __name__ == "__main__":
    main()
