"""Executes operation sequences on the real library and records one event per public call.

An event is the operation with its (abstract) arguments, the outcome (ok / exception class), the
projected state pi of every slot whose projection changed (`ch`), the alias relation between live
slots (`sh`) and per-operation observations (flags, results).  Nothing is interpreted here: the log
is what pi returned; the TLA+ trace specification (spec/HgTrace.tla) is the judge.
"""

import json
import os
import pickle
import tempfile

import math

import numpy as np

from . import build as B
from .absval import to_float, to_json, max_mag
from .project import Pi, shares


class BudgetExceeded(Exception):
    pass


def _bool_and_str_keys(h, depth=0):
    """does some Categorize in this tree hold a boolean category next to its string form (True and 'True')?"""
    if h is None or depth > 12:
        return False
    if getattr(h, "name", "") == "Categorize":
        keys = list(h.bins)
        strs = {k for k in keys if isinstance(k, str)}
        if any(not isinstance(k, str) and str(k) in strs for k in keys):
            return True
    try:
        kids = list(h.children)
    except Exception:
        return False
    return any(_bool_and_str_keys(c, depth + 1) for c in kids)


def _json_same(a, b):
    """two JSON values are the same document (numbers by value: 2 and 2.0 are the same number)"""
    # (a boolean is the number 0 / 1: a Minimize filled with booleans writes `false` and reloads as 0.0)
    if isinstance(a, (int, float)) and isinstance(b, (int, float)):
        # (up to the last bits: Deviate keeps variance x entries and divides again)
        return a == b or (a != a and b != b) or abs(a - b) <= 1e-12 * max(abs(a), abs(b))
    if isinstance(a, dict) and isinstance(b, dict):
        return set(a) == set(b) and all(_json_same(a[k], b[k]) for k in a)
    if isinstance(a, (list, tuple)) and isinstance(b, (list, tuple)):
        return len(a) == len(b) and all(_json_same(x, y) for x, y in zip(a, b))
    return type(a) is type(b) and a == b


def _lead_count(h):
    """is the first leaf in the library's traversal order a Count reached through collections only?"""
    name = getattr(h, "name", "")
    if name == "Count":
        return True
    if name in ("Label", "UntypedLabel"):
        kids = list(h.pairs.values())
    elif name in ("Index", "Branch"):
        kids = list(h.values)
    else:
        return False
    return bool(kids) and _lead_count(kids[0])


def _same_spec(a, b):
    """bin specifications compared value by value (dicts, lists of dicts, numpy scalars)"""
    if isinstance(a, dict) and isinstance(b, dict):
        return set(a) == set(b) and all(_same_spec(a[k], b[k]) for k in a)
    if isinstance(a, (list, tuple)) and isinstance(b, (list, tuple)):
        return len(a) == len(b) and all(_same_spec(x, y) for x, y in zip(a, b))
    try:
        return bool(a == b) or (a != a and b != b)
    except Exception:
        return False


class Recorder:
    def __init__(self, gamma, budget=1024, tmpdir=None):
        self.g = gamma
        self.pi = Pi(gamma)
        self.budget = budget
        self.objs = {}
        self.oid_of = {}
        self.keep = []  # keeps every object ever seen alive so id()s stay unique
        self.prev = {}
        self.prevraw = {}
        self.rawch = []
        self.mh_ret = {}
        self.slot_pi = {}  # slots holding DataFrame histograms are projected with one gamma per axis
        self.events = []
        self.tmpdir = tmpdir
        self.cut = None

    # ---------------------------------------------------------------- helpers
    def oid(self, o):
        if id(o) not in self.oid_of:
            self.oid_of[id(o)] = len(self.oid_of) + 1
            self.keep.append(o)
        return self.oid_of[id(o)]

    def rawsig(self, o):
        """bit-exact signature of an aggregator's content (its own serialisation, floats printed exactly): the
        rational reconstruction of pi deliberately absorbs rounding, so 'exactly as before' is also checked on this"""
        try:
            return json.dumps(o.toJson(), sort_keys=True)
        except Exception as e:
            return "unserialisable:" + type(e).__name__

    def observe(self):
        ch = []
        self.rawch = []
        for s in sorted(self.objs):
            sig = self.rawsig(self.objs[s])
            if self.prevraw.get(s) != sig:
                self.rawch.append(s)
                self.prevraw[s] = sig
        for s in [s for s in self.prevraw if s not in self.objs]:
            del self.prevraw[s]
        for s in sorted(self.objs):
            o = self.objs[s]
            pi = self.slot_pi.get(s, self.pi)
            try:
                c = to_json(pi(o))
            except BudgetExceeded:
                raise
            except Exception as e:  # the object cannot be read through its public attributes any more
                c = {"k": "Unobservable", "e": [0, 1], "why": "%s: %s" % (type(e).__name__, str(e)[:80])}
            rec = {"c": c, "oid": self.oid(o)}
            if self.prev.get(s) != rec:
                ch.append({"s": s, "v": rec})
        dropped = [s for s in self.prev if s not in self.objs]
        return ch, dropped

    def factor(self, op):
        f = to_float(op["f"])
        if op.get("int") and f == int(f):
            return int(f)
        return f

    # ---------------------------------------------------------------- one step
    def eq_near(self, h):
        """a copy of h with ONE numeric field moved by one ulp, compared with h at tolerance 1e-12, 0, 1e-12"""
        import histogrammar.util as U

        c = h.copy()

        def nudge(node, depth=0):
            field = {"Sum": "sum", "Average": "mean", "Minimize": "min", "Maximize": "max"}.get(getattr(node, "name", ""))
            for attr in ([field] if field else []):
                v = node.__dict__.get(attr)
                if isinstance(v, float) and math.isfinite(v) and v != 0.0 and getattr(node, "entries", 0.0) > 0.0:
                    setattr(node, attr, math.nextafter(v, math.inf))
                    return True
            if depth < 8:
                for ch in list(node.children):
                    if ch is not None and ch is not node.__dict__.get("value") and nudge(ch, depth + 1):
                        return True
            return False

        res = {"nudged": bool(nudge(c)), "t1": True, "z": False, "zne": True, "t2": True}
        if res["nudged"]:
            try:
                U.relativeTolerance = U.absoluteTolerance = 1e-12
                res["t1"] = bool(c == h) and bool(h == c)
                U.relativeTolerance = U.absoluteTolerance = 0.0
                res["z"] = bool(c == h) or bool(h == c)
                res["zne"] = bool(c != h)
                U.relativeTolerance = U.absoluteTolerance = 1e-12
                res["t2"] = bool(c == h) and bool(h == c)
            finally:
                U.relativeTolerance = U.absoluteTolerance = 0.0
        return res

    def accessors(self, h, op):
        """the scalar look-up methods of the read-only API, answered by the library (spec: HgViews!AccExpect)"""
        from .project import num as _num

        P_ = self.slot_pi.get(op["a"], self.pi)
        pos = P_.pos
        opt = lambda v, f: [] if v is None else [f(v)]  # noqa: E731
        val = lambda a: a() if callable(a) else a  # noqa: E731
        xs = [self.g.pos(x) for x in op.get("xs", [])]
        ks = list(op.get("ks", []))
        k = h.name
        if k == "Bin":
            return {"num": int(val(h.num)), "size": int(val(h.size)), "binx": [int(h.bin(x)) for x in xs],
                    "underx": [bool(h.under(x)) for x in xs], "overx": [bool(h.over(x)) for x in xs],
                    "nanx": [bool(h.nan(x)) for x in xs], "ranges": [[pos(v) for v in h.range(i)] for i in h.indexes]}
        if k == "SparselyBin":
            return {"numFilled": int(val(h.numFilled)), "size": int(val(h.size)), "num": int(val(h.num)),
                    "minBin": opt(h.minBin, int), "maxBin": opt(h.maxBin, int), "low": opt(h.low, pos), "high": opt(h.high, pos),
                    "indexes": [int(i) for i in h.indexes], "binx": [int(h.bin(x)) for x in xs],
                    "nanx": [bool(h.nan(x)) for x in xs], "ranges": [[pos(v) for v in h.range(i)] for i in ks],
                    "atent": [opt(h.at(i), lambda b: _num(b.entries)) for i in ks]}
        if k == "CentrallyBin":
            cs = list(h.centers)
            return {"centers": [pos(c) for c in cs], "nb": int(val(h.n_bins)), "indexx": [int(h.index(x)) for x in xs],
                    # (CentrallyBin.value(x) cannot be called: the instance attribute `value`, the template,
                    # shadows the method)
                    "centerx": [pos(h.center(x)) for x in xs],
                    "nanx": [bool(h.nan(x)) for x in xs],
                    "neighbors": [[opt(v, pos) for v in h.neighbors(c)] for c in cs],
                    "ranges": [[pos(v) for v in h.range(c)] for c in cs]}
        if k in ("IrregularlyBin", "Stack"):
            return {"thresholds": [pos(t) for t in h.thresholds], "nb": len(h.thresholds),
                    "values": [_num(v.entries) for v in h.values]}
        if k == "Select":
            try:
                fp = [_num(val(h.fractionPassing))]
            except ZeroDivisionError:
                fp = []
            return {"fractionPassing": fp}
        if k == "Fraction":
            return {"numerator": _num(h.numerator.entries), "denominator": _num(h.denominator.entries)}
        if k == "Categorize":
            return {"size": int(val(h.size)), "keys": [str(x) for x in h.keys], "values": len(h.values),
                    "getent": [opt(h.get(key), lambda b: _num(b.entries)) for key in ks]}
        if k in ("Label", "UntypedLabel"):
            return {"size": int(val(h.size)), "keys": [str(x) for x in h.keys],
                    "getent": [opt(h.get(key), lambda b: _num(b.entries)) for key in ks]}
        if k in ("Index", "Branch"):
            out = {"size": int(val(h.size)), "getent": [opt(h.get(i), lambda b: _num(b.entries)) for i in ks]}
            if k == "Branch" and len(h.values) <= 10:
                out["ient"] = [_num(getattr(h, "i%d" % i).entries) for i in range(len(h.values))]
            return out
        return {}

    def step(self, op):
        import histogrammar as hg

        ev = dict(op)
        kind = op["op"]
        # an operand slot that does not exist (because an earlier call raised) makes the step meaningless
        for key in ("a", "b") + (("s",) if kind not in ("New", "NewShared", "NewDefault", "NewConv", "MH") else ()):
            if key in op and op[key] not in self.objs:
                return None
        if any(s not in self.objs for s in op.get("srcs", [])):
            return None
        out, exc, extra = "ok", "", {}
        O = self.objs
        # ---- prepare: concretise the arguments (harness code: errors here are machinery errors)
        arg = {}
        if kind in ("Fill", "FillNoW", "Increment"):
            arg["x"] = B.datum(op["x"], self.g, op.get("rec"))
            if kind == "Fill":
                arg["w"] = to_float(op["w"])
                if (op.get("rec") or B.RECMODE[0]) == "npdict":
                    arg["w"] = np.float64(arg["w"])
                elif (op.get("rec") or B.RECMODE[0]) == "intdict" and math.isfinite(arg["w"]) and arg["w"] == int(arg["w"]):
                    arg["w"] = int(arg["w"])
        elif kind == "FillNumpy":
            arg["data"] = B.batch(op["rows"], self.g)
            arg["before"] = arg["data"].tobytes()
            arg["pass"] = arg["data"]
            if op.get("bf") == "dict":        # a dict of columns
                arg["pass"] = {k: arg["data"][k] for k in ("x", "y", "s", "c")}
            elif op.get("bf") == "ints":      # ... with whole-number columns as int64 arrays
                arg["pass"] = {k: arg["data"][k] for k in ("x", "y", "s", "c")}
                for k in ("x", "y", "s"):
                    col = arg["data"][k]
                    if len(col) and np.all(np.isfinite(col)) and np.all(col == np.round(col)):
                        arg["pass"][k] = col.astype(np.int64)

            if op["wf"] == "scalar":
                arg["w"] = to_float(op["wsc"])
            elif op["wf"] == "array":
                arg["w"] = np.array([to_float(x) for x in op["ws"]], dtype=np.float64)
                if op.get("wdt") in ("i8", "i4") and np.all(arg["w"] == np.round(arg["w"])):
                    arg["w"] = arg["w"].astype(np.int64 if op["wdt"] == "i8" else np.int32)
                arg["wb"] = arg["w"].tobytes()
        elif kind == "Mul":
            arg["f"] = self.factor(op)
        elif kind == "MH":
            from . import frame as FR

            allcols = sorted({c for f in op["features"] for c in f} | set(op["cols"]) | ({op["time_axis"]} if op.get("time_axis") else set()))
            arg["df"] = FR.make_df(op["rows"], allcols, op.get("index"))
            arg["before"] = arg["df"].copy(deep=True)
            arg["specs"] = None
            if op.get("given") is not None:
                arg["specs"] = {}
                for name, sp in op["given"].items():
                    cs = name.split(":")
                    arg["specs"][name] = ([FR.concretise_spec(x, c) for x, c in zip(sp, cs)] if isinstance(sp, list)
                                          else FR.concretise_spec(sp, cs[0]))
        elif kind in ("New", "NewShared", "NewDefault", "NewConv"):
            B.check_exact(op["d"], self.g)  # the constructors themselves are library code: called inside the try
        # ---- execute: only calls into the library
        try:
            if kind == "New":
                O[op["s"]] = B.build(op["d"], self.g)
            elif kind == "NewShared":
                O[op["s"]] = B.build(op["d"], self.g, shared={})
            elif kind == "NewDefault":
                O[op["s"]] = B.build_default(op["d"], self.g)
            elif kind == "NewConv":
                O[op["s"]] = B.build_conv(op["d"], self.g)
            elif kind == "Fill":
                O[op["s"]].fill(arg["x"], arg["w"])
            elif kind == "FillNoW":
                O[op["s"]].fill(arg["x"])
            elif kind == "Increment":
                r = hg.defs.increment(O[op["s"]], arg["x"])
                extra["same"] = r is O[op["s"]]
            elif kind == "FillNumpy":
                if op["wf"] == "one":
                    O[op["s"]].fill.numpy(arg["pass"])
                else:
                    O[op["s"]].fill.numpy(arg["pass"], arg["w"])
            elif kind == "Add":
                O[op["t"]] = O[op["a"]] + O[op["b"]]
            elif kind == "Combine":
                O[op["t"]] = hg.defs.combine(O[op["a"]], O[op["b"]])
            elif kind == "IAdd":
                a = O[op["a"]]
                a += O[op["b"]]
                O[op["a"]] = a
            elif kind == "Mul":
                O[op["t"]] = (O[op["a"]] * arg["f"]) if op.get("side", "l") == "l" else (arg["f"] * O[op["a"]])
            elif kind == "Zero":
                O[op["t"]] = O[op["a"]].zero()
            elif kind == "Histogram":
                O[op["t"]] = O[op["a"]].histogram()
            elif kind == "StackBuild":
                O[op["t"]] = hg.Stack.build(*[O[s] for s in op["srcs"]])
            elif kind == "FractionBuild":
                O[op["t"]] = hg.Fraction.build(O[op["a"]], O[op["b"]])
            elif kind == "Copy":
                O[op["t"]] = O[op["a"]].copy()
            elif kind == "Pickle":
                O[op["t"]] = pickle.loads(pickle.dumps(O[op["a"]]))
            elif kind == "Reload":
                h = O[op["a"]]
                doc = h.toJson()
                try:
                    text = json.dumps(doc, allow_nan=False)
                    extra["strict"] = True
                except ValueError:
                    text = json.dumps(doc)
                    extra["strict"] = False
                via = op["via"]
                if via == "dict":
                    r = hg.Factory.fromJson(doc)
                elif via == "string":
                    r = hg.Factory.fromJsonString(text)
                else:
                    fd, path = tempfile.mkstemp(suffix=".json", dir=self.tmpdir)
                    os.close(fd)
                    try:
                        h.toJsonFile(path)
                        r = hg.Factory.fromJsonFile(path)
                    finally:
                        os.unlink(path)
                extra["fixpoint"] = r.toJson() == doc
                O[op["t"]] = r
            elif kind == "Immutable":
                O[op["t"]] = O[op["a"]].toImmutable()
            elif kind == "Eq":
                a, b = O[op["a"]], O[op["b"]]
                import histogrammar.util as U

                res = {"ab": bool(a == b), "ba": bool(b == a), "ne": bool(a != b)}
                U.relativeTolerance = U.absoluteTolerance = 1e-12
                try:
                    res["tab"] = bool(a == b)
                    res["tba"] = bool(b == a)
                finally:
                    U.relativeTolerance = U.absoluteTolerance = 0.0
                extra["res"] = res
            elif kind == "EqNear":
                extra["res"] = self.eq_near(O[op["a"]])
            elif kind == "Read":
                h = O[op["a"]]
                which = op["which"]
                if which == "toJson":
                    h.toJson()
                    h.toJsonString()
                elif which == "repr":
                    repr(h)
                    str(h)
                elif which == "hash":
                    hash(h)
                elif which == "children":
                    list(h.children)
                    h.name, h.factory, h.entries
                elif which == "ndim":
                    if hasattr(type(h), "n_dim"):  # collections do not offer n_dim / datatype
                        h.n_dim, h.datatype
            elif kind == "MH":
                from . import frame as FR

                kw = dict(features=[":".join(f) for f in op["features"]] if op["features"] else None,
                          binning=op["binning"], bin_specs=arg["specs"], ret_specs=True)
                if op.get("time_axis"):
                    kw.update(time_axis=op["time_axis"], time_width=op.get("time_width", "30d"))
                if op.get("reuse"):
                    # a second frame binned with what the first call returned
                    feats0, bspecs0, taxis0, vdt0 = self.mh_ret[op["reuse"]]
                    import copy as _copy

                    # (the callee gets its own copies: what it was given is compared with what it returns)
                    kw = dict(features=list(feats0), bin_specs=_copy.deepcopy(bspecs0), var_dtype=dict(vdt0),
                              binning=op["binning"], ret_specs=True)
                    if taxis0:
                        kw["time_axis"] = taxis0
                extra["specs"], extra["dts"], extra["nfeat"], extra["kept"] = {}, {}, False, True
                from histogrammar.dfinterface.make_histograms import make_histograms

                hists, feats, bspecs, taxis, vdt = make_histograms(arg["df"], **kw)
                name = ":".join(op["cols"])
                extra["nfeat"] = name in hists and all(float(h.entries) == len(op["rows"]) for h in hists.values())
                if op.get("reuse"):
                    # binned with what it was given: every specification passed in comes back unchanged
                    extra["kept"] = all(k in bspecs and _same_spec(bspecs[k], v) for k, v in bspecs0.items())
                extra["specs"] = FR.abstract_specs(bspecs)
                extra["dts"] = {c: FR.DTYPES[c] for c in op["cols"]}
                O[op["t"]] = hists[name]
                self.mh_ret[op["t"]] = (feats, bspecs, taxis, vdt)
                self.slot_pi[op["t"]] = Pi(self.g, by_depth=[FR.gamma_of(c) for c in op["cols"]])
            elif kind == "View":
                h = O[op["a"]]
                P_ = self.pi
                lo = self.g.pos(op["qlo"]) if op["hasLo"] else None
                hi = self.g.pos(op["qhi"]) if op["hasHi"] else None
                xs = [self.g.pos(x) for x in op["xs"]]
                from .project import num as _num

                res = {"nb": -1, "ent": [], "edges": [], "centers": [], "xent": [], "width": []}
                extra["res"] = res
                res["nb"] = int(h.num_bins(lo, hi))
                res["ent"] = [_num(v) for v in h.bin_entries(lo, hi)]
                res["edges"] = [P_.pos(v) for v in h.bin_edges(lo, hi)]
                res["centers"] = [P_.pos(v) for v in h.bin_centers(lo, hi)]
                res["xent"] = [_num(v) for v in h.bin_entries(xvalues=xs)] if xs else []
                if h.name in ("Bin", "SparselyBin"):
                    res["width"] = [P_.width(h.bin_width())]
            elif kind == "CatView":
                h = O[op["a"]]
                from .project import num as _num

                res = {"labels": [], "ent": [], "probe": list(op["probe"]), "pent": [], "mpv": ""}
                extra["res"] = res
                res["labels"] = [str(v) for v in h.bin_labels()]
                res["ent"] = [_num(v) for v in h.bin_entries()]
                res["pent"] = [_num(v) for v in h.bin_entries(labels=list(op["probe"]))] if op["probe"] else []
                if len(h.bins) > 0:
                    res["mpv"] = str(h.mpv)
            elif kind == "Grid2D":
                h = O[op["a"]]
                P_ = self.pi
                from .project import num as _num

                res = {"grid": [], "projx": [], "projy": [], "xr": [], "yr": [], "projxm": {}, "projym": {}}
                extra["res"] = res
                xr, yr, grid = h.xy_ranges_grid()
                res["grid"] = [[_num(v) for v in row] for row in grid.tolist()]
                px, py = h.project_on_x(), h.project_on_y()
                if h.name == "Bin":
                    res["xr"] = [P_.pos(v) for v in xr]
                    res["yr"] = [P_.pos(v) for v in yr]
                    res["projx"] = [_num(v.entries) for v in px.values]
                    res["projy"] = [_num(v.entries) for v in py.values]
                else:
                    res["projxm"] = {str(int(k)): _num(v.entries) for k, v in px.bins.items()}
                    res["projym"] = {str(int(k)): _num(v.entries) for k, v in py.bins.items()}
            elif kind == "Acc":
                extra["res"] = self.accessors(O[op["a"]], op)
            elif kind == "Doc":
                from .doc import tag

                extra["doc"] = tag(O[op["a"]].toJson())
            elif kind == "FromDoc":
                from .doc import tag, untag

                extra["redoc"] = {"j": "str", "v": "-"}
                given = untag(op["doc"])
                r = hg.Factory.fromJson(given)
                extra["redoc"] = tag(r.toJson())
                extra["fix"] = _json_same(r.toJson(), given)
            elif kind == "Drop":
                del O[op["s"]]
            else:
                raise NotImplementedError("unknown op " + kind)
        except NotImplementedError:
            raise
        except Exception as e:  # the outcome is part of the observation
            out, exc = "exc", type(e).__name__
            extra["msg"] = str(e)[:120]
        if out == "ok" and "t" in op and "a" in op:
            if op["a"] in self.slot_pi:
                self.slot_pi[op["t"]] = self.slot_pi[op["a"]]
            else:
                self.slot_pi.pop(op["t"], None)
        if kind in ("Add", "Combine", "IAdd"):
            tgt = self.objs.get(op["t"] if kind != "IAdd" else op["a"])
            extra["boolstr"] = bool(out == "ok" and _bool_and_str_keys(tgt))
        if kind == "FillNumpy":
            extra["lead"] = _lead_count(self.objs.get(op["s"]))
            extra["inputs_unchanged"] = arg["data"].tobytes() == arg["before"] and (
                "wb" not in arg or arg["w"].tobytes() == arg["wb"])
        if kind == "MH":
            extra["df_unchanged"] = bool(arg["df"].equals(arg["before"])) and list(arg["df"].dtypes) == list(arg["before"].dtypes)
            extra.setdefault("specs", {})
            extra.setdefault("dts", {c: "float" for c in op["cols"]})
            extra.setdefault("nfeat", False)
            extra.setdefault("kept", True)
        if kind in ("View", "CatView", "Grid2D", "Acc") and "res" not in extra:
            extra["res"] = {}
        if kind == "FromDoc":
            extra.setdefault("fix", False)
        if kind == "Doc" and "doc" not in extra:
            extra["doc"] = {"j": "str", "v": "-"}
        if kind == "EqNear" and "res" not in extra:
            extra["res"] = {"nudged": True, "t1": False, "z": True, "zne": False, "t2": False}
        if kind == "Eq" and "res" not in extra:
            extra["res"] = {"ab": False, "ba": False, "ne": True, "tab": False, "tba": False}
        ch, dropped = self.observe()
        if any(max_mag(c["v"]["c"]) > self.budget for c in ch):
            raise BudgetExceeded()
        for c in ch:
            self.prev[c["s"]] = c["v"]
        for s in dropped:
            del self.prev[s]
        ev.update(out=out, exc=exc, ch=ch, raw=list(self.rawch), sh=shares(self.objs))
        ev.update(extra)
        self.events.append(to_json(ev))
        return ev

    def run(self, ops):
        for op in ops:
            try:
                self.step(op)
            except BudgetExceeded:
                self.cut = "budget"
                break
        return self.events
