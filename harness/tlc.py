"""Thin wrapper around TLC: run a module with a config, collect PrintT JSON lines and statistics."""

import atexit
import json
import os
import re
import shutil
import subprocess
import sys
import time
from concurrent.futures import ThreadPoolExecutor

VERIF = os.path.dirname(os.path.dirname(os.path.abspath(__file__)))
SPEC = os.path.join(VERIF, "spec")
JAR = "/opt/veriftools/tla/tla2tools.jar"
CM = "/opt/veriftools/tla/CommunityModules-deps.jar"

_scratch = None


_scratch_lock = __import__("threading").Lock()


def scratch():
    """per-process scratch directory under /verif/.run, removed at exit"""
    global _scratch
    with _scratch_lock:  # several threads start TLC runs at once: publish the path only once the directory exists
        if _scratch is None:
            path = os.path.join(VERIF, ".run", str(os.getpid()))
            os.makedirs(path, exist_ok=True)
            owner = os.getpid()

            def _cleanup(path=path):
                # forked worker processes inherit this handler: only the creating process may remove the directory
                if os.getpid() == owner:
                    shutil.rmtree(path, True)

            atexit.register(_cleanup)
            _scratch = path
        elif not os.path.isdir(_scratch):
            os.makedirs(_scratch, exist_ok=True)
    return _scratch


class TLCError(Exception):
    def __init__(self, msg, out):
        super().__init__(msg)
        self.out = out


import itertools
import threading

_seq = itertools.count(1)
_seq_lock = threading.Lock()


def _classpath():
    cp = [JAR]
    d = os.path.dirname(JAR)
    for f in sorted(os.listdir(d)):
        if f.endswith(".jar") and os.path.join(d, f) != JAR:
            cp.append(os.path.join(d, f))
    return ":".join(cp)


def run(module, cfg, env=None, workers=1, args=(), timeout=3600, heap="4g", spec_dir=SPEC, text=None):
    """run TLC on spec/<module>.tla with config text `cfg`; returns dict(out, prints, states, distinct, wall)"""
    with _seq_lock:
        k = next(_seq)
    sc = scratch()
    tag = "%s_%d_%d" % (module, os.getpid(), k)
    cfgpath = os.path.join(sc, tag + ".cfg")
    with open(cfgpath, "w") as f:
        f.write(cfg)
    meta = os.path.join(sc, tag + ".meta")
    if text is not None:
        # a generated module (model-checking instance): lives in the scratch directory, finds the
        # hand-written modules through TLA-Library
        spec_dir = os.path.join(sc, tag + ".mod")
        os.makedirs(spec_dir, exist_ok=True)
        with open(os.path.join(spec_dir, module + ".tla"), "w") as f:
            f.write(text)
    cmd = ["java", "-Xmx" + heap, "-Xss64m", "-XX:+UseParallelGC", "-DTLA-Library=" + SPEC, "-cp", _classpath(), "tlc2.TLC",
           "-workers", str(workers),
           "-metadir", meta, "-noGenerateSpecTE", "-config", cfgpath] + list(args) + [module + ".tla"]
    e = dict(os.environ)
    e.pop("JAVA_TOOL_OPTIONS", None)
    if env:
        e.update(env)
    t0 = time.time()
    p = subprocess.run(cmd, cwd=spec_dir, env=e, stdout=subprocess.PIPE, stderr=subprocess.STDOUT, timeout=timeout)
    wall = time.time() - t0
    out = p.stdout.decode("utf-8", "replace")
    shutil.rmtree(meta, ignore_errors=True)
    if text is not None:
        shutil.rmtree(spec_dir, ignore_errors=True)
    res = {"out": out, "wall": wall, "rc": p.returncode, "prints": parse_prints(out)}
    m = re.findall(r"(\d+) states generated, (\d+) distinct states found", out)
    if m:
        res["states"], res["distinct"] = int(m[-1][0]), int(m[-1][1])
    else:
        res["states"] = res["distinct"] = 0
    res["error"] = None
    if "Error:" in out or p.returncode not in (0,):
        # invariant violations (rc 12) and evaluation errors are both reported through "Error:"
        em = re.search(r"Error: (.*)", out)
        res["error"] = em.group(1) if em else "rc=%d" % p.returncode
    return res


def parse_prints(out):
    """PrintT(ToJson(v)) lines: a quoted JSON string per line"""
    vals = []
    for line in out.splitlines():
        if line.startswith('"{') or line.startswith('"['):
            try:
                vals.append(json.loads(json.loads(line)))
            except ValueError:
                pass
    return vals


def failed_tid(out):
    """when TLC dies with an evaluation error it prints the offending state; extract tid"""
    m = re.findall(r"/\\ tid = (\d+)", out)
    return int(m[-1]) if m else None


def run_parallel(jobs, nproc):
    """jobs: list of kwargs for run(); returns results in order"""
    with ThreadPoolExecutor(max_workers=nproc) as ex:
        return list(ex.map(lambda kw: run(**kw), jobs))
