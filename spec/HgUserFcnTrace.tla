---------------------------- MODULE HgUserFcnTrace ----------------------------
(***************************************************************************)
(* Validates recorded histories of wrapper applications and calls against  *)
(* HgUserFcn.  Two wrapper slots per trace (built from the same underlying *)
(* function by different application orders).  Total verdicts, as in       *)
(* HgTrace.                                                                *)
(***************************************************************************)
EXTENDS Integers, Sequences, FiniteSets, TLC, Json, IOUtils

Input == JsonDeserialize(IOEnv.TRACE_FILE)
Traces == Input.traces
NArgs == 10
(* x -> 2x+1 on 1.0, 2.0, [1,2], [1,3], -1.0, -2.0, and on arrays that BROADCAST to an earlier argument without being *)
(* it: the empty array, the one-element array [1] and the constant array [1,1] (next to the scalar 1.0)              *)
(* ... and on a call with TWO positional arguments (1.0, 4.0) of a function with an optional second parameter,      *)
(* whose leading argument equals argument 1                                                                       *)
F == <<<<3>>, <<5>>, <<3, 5>>, <<3, 7>>, <<-1>>, <<-3>>, <<>>, <<3>>, <<3, 3>>, <<7>>>>
MaxOps == 0
VARIABLES tid, l, ws
U == INSTANCE HgUserFcn WITH w <- ws, applied <- {}, n <- 0, lastret <- <<>>, lastarg <- 0

T == Traces[tid]
Ev == T.events[l]
Init == /\ tid \in 1..Len(Traces) /\ l = 1
        /\ ws = [s \in 1..2 |-> U!Raw(Traces[tid].base)]

(* what the implementation shows of a wrapper *)
Obs(w) == [wrapped |-> w.wrapped, cached |-> w.cached, name |-> w.name]

Expect ==
  LET w == ws[Ev.s] IN
  CASE Ev.op = "S" -> [exc |-> FALSE, w |-> U!Serializable(w)]
    [] Ev.op = "C" -> [exc |-> FALSE, w |-> U!Cached(w)]
    [] Ev.op = "N" -> [exc |-> ~U!CanName(w), w |-> IF U!CanName(w) THEN U!Named(Ev.n, w) ELSE w]
    [] Ev.op = "Call" -> [exc |-> FALSE, w |-> U!AfterCall(w, Ev.arg)]
    [] Ev.op = "EqW" -> [exc |-> FALSE, w |-> w]

Clauses(E) ==
  LET ok == Ev.out = "ok" IN
  [ outcome |-> ok = ~E.exc,
    state |-> ~ok \/ E.exc \/ Ev.op \in {"Call", "EqW"} \/ Ev.obs = Obs(E.w),
    unchanged |-> ok \/ Ev.obs = Obs(ws[Ev.s]),
    ret |-> ~ok \/ Ev.op # "Call" \/ Ev.ret = F[Ev.arg],
    eq |-> ~ok \/ Ev.op # "EqW" \/ Ev.res = U!EqW(ws[1], ws[2]) ]
ClauseNames == {"outcome", "state", "unchanged", "ret", "eq"}

Next ==
  /\ l <= Len(T.events)
  /\ LET E == Expect
         Fl == Clauses(E)
         bad == {cl \in ClauseNames : ~Fl[cl]}
     IN /\ \A cl \in bad : PrintT(ToJson([t |-> T.id, l |-> l, op |-> Ev.op, cl |-> cl, dev |-> "",
                                           exp |-> <<Obs(E.w)>>, obs |-> <<>>]))
        (* continue from the specification's state when the call behaved, from a resynchronised state otherwise *)
        /\ ws' = [ws EXCEPT ![Ev.s] = IF Ev.out = "ok" /\ Ev.op \in {"S", "C", "N"}
                                       THEN [E.w EXCEPT !.wrapped = Ev.obs.wrapped, !.cached = Ev.obs.cached, !.name = Ev.obs.name]
                                       ELSE E.w]
        /\ l' = l + 1
  /\ UNCHANGED tid
Spec == Init /\ [][Next]_<<tid, l, ws>>
=============================================================================
