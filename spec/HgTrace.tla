------------------------------- MODULE HgTrace -------------------------------
(***************************************************************************)
(* Trace specification: validates histories recorded from the real         *)
(* library against the Histogrammar specification.                         *)
(*                                                                         *)
(* Input: one JSON file (IOEnv.TRACE_FILE) with a batch of traces.  Every  *)
(* trace is a list of events, one per public call, each carrying the       *)
(* operation, its abstract arguments, the outcome, and the projected state *)
(* of every slot that changed.  The step relation binds pool' to what the  *)
(* implementation actually did (the log) and evaluates, conjunct by        *)
(* conjunct, the corresponding action of the specification on             *)
(* (pool, arguments, logged post-state).  Verdicts are TOTAL: the trace    *)
(* spec never blocks, every failing clause is reported by name, and the    *)
(* events after a mismatch are still judged from the implementation's      *)
(* actual state.  A trace is a behaviour of the specification iff no       *)
(* clause fails.                                                           *)
(***************************************************************************)
EXTENDS HgSem, HgParse, HgViews, HgFrame, Json, IOUtils, TLCExt

Input == JsonDeserialize(IOEnv.TRACE_FILE)
Traces == Input.traces

VARIABLES tid,    \* which trace of the batch
          l,      \* position in the trace
          pool,   \* [slot -> [live, d, c, oid, mut]]
          bag     \* ghost: [slot -> multiset of <<datum, weight>>] (only when the trace asks for `sem`)
vars == <<tid, l, pool, bag>>

T == Traces[tid]
NS == T.nslots
Ev == T.events[l]
WantSem == T.sem

DummyD == [k |-> "Count", tr |-> "id"]
(* d  : the descriptor as far as the object itself can know it (after a JSON round trip: Forget - below an empty  *)
(*      sparse container only the child's kind)                                                              *)
(* dt : the true structure (what the object was built from), kept as a ghost                                *)
Absent == [live |-> FALSE, d |-> DummyD, dt |-> DummyD, c |-> [k |-> "Count", e |-> Q(0)], oid |-> 0, mut |-> FALSE]

Init == /\ tid \in 1..Len(Traces)
        /\ l = 1
        /\ pool = [s \in 1..Traces[tid].nslots |-> Absent]
        /\ bag = [s \in 1..Traces[tid].nslots |-> EmptyBag]

-----------------------------------------------------------------------------
(* what the log says                                                        *)
ChSlots == {Ev.ch[i].s : i \in DOMAIN Ev.ch}
ChOf(s) == (Ev.ch[CHOOSE i \in DOMAIN Ev.ch : Ev.ch[i].s = s]).v
ObsC(s) == IF s \in ChSlots THEN ChOf(s).c ELSE pool[s].c
ObsOid(s) == IF s \in ChSlots THEN ChOf(s).oid ELSE pool[s].oid
Ok == Ev.out = "ok"
LiveOids == {pool[s].oid : s \in {s2 \in 1..NS : pool[s2].live}}

-----------------------------------------------------------------------------
(* structural sanity of a logged content against a descriptor; guards the  *)
(* recursive operators against ill-shaped states                            *)
RECURSIVE ShapeOK(_, _)
ShapeOK(c, d) ==
  /\ c.k = d.k
  /\ CASE d.k \in LeafKinds -> TRUE
       [] d.k = "Bin" -> /\ Len(c.vals) = d.num
                         /\ \A i \in DOMAIN c.vals : ShapeOK(c.vals[i], d.value)
                         /\ ShapeOK(c.under, d.under) /\ ShapeOK(c.over, d.over) /\ ShapeOK(c.nan, d.nan)
       [] d.k = "SparselyBin" -> /\ \A key \in DOMAIN c.bins : ShapeOK(c.bins[key], d.value)
                                 /\ ShapeOK(c.nan, d.nan)
       [] d.k = "Categorize" -> \A key \in DOMAIN c.bins : ShapeOK(c.bins[key], d.value)
       [] d.k = "CentrallyBin" -> /\ Len(c.bins) = Len(d.centers) /\ Len(c.centers) = Len(d.centers)
                                  /\ \A i \in DOMAIN c.bins : ShapeOK(c.bins[i], d.value)
                                  /\ ShapeOK(c.nan, d.nan)
       [] d.k = "IrregularlyBin" -> /\ Len(c.bins) = Len(d.edges) + 1 /\ Len(c.ths) = Len(d.edges) + 1
                                    /\ \A i \in DOMAIN c.bins : ShapeOK(c.bins[i], d.value)
                                    /\ ShapeOK(c.nan, d.nan)
       [] d.k = "Stack" -> /\ Len(c.bins) = Len(d.thresholds) + 1 /\ Len(c.ths) = Len(d.thresholds) + 1
                           /\ \A i \in DOMAIN c.bins : ShapeOK(c.bins[i], d.value)
                           /\ ShapeOK(c.nan, d.nan)
       [] d.k = "Fraction" -> ShapeOK(c.num, d.value) /\ ShapeOK(c.den, d.value)
       [] d.k = "Select" -> ShapeOK(c.cut, d.cut)
       [] d.k \in {"Label", "UntypedLabel"} ->
            /\ DOMAIN c.pairs = DOMAIN d.pairs
            /\ \A key \in DOMAIN d.pairs : ShapeOK(c.pairs[key], d.pairs[key])
       [] d.k \in {"Index", "Branch"} ->
            /\ Len(c.vals) = Len(d.vals)
            /\ \A i \in DOMAIN d.vals : ShapeOK(c.vals[i], d.vals[i])

(* largest magnitude in a content (to tell "left the exact regime" from a   *)
(* mismatch)                                                                *)
RECURSIVE Mag(_)
Mag(c) ==
  LET M(p) == IF Abs(p[1]) > p[2] THEN Abs(p[1]) ELSE p[2]
      Mx(S) == IF S = {} THEN 0 ELSE CHOOSE m \in S : \A n \in S : n <= m
      Me == M(c.e)
  IN
  CASE c.k = "Count" -> Me
    [] c.k = "Sum" -> Mx({Me, M(c.s)})
    [] c.k = "Average" -> Mx({Me, M(c.mean)})
    [] c.k = "Deviate" -> Mx({Me, M(c.mean), M(c.vte)})
    [] c.k = "Minimize" -> Mx({Me, M(c.min)})
    [] c.k = "Maximize" -> Mx({Me, M(c.max)})
    [] c.k = "Bag" -> Mx({Me} \cup {M(c.vals[key]) : key \in DOMAIN c.vals})
    [] c.k = "Bin" -> Mx({Me, Mag(c.under), Mag(c.over), Mag(c.nan)} \cup {Mag(c.vals[i]) : i \in DOMAIN c.vals})
    [] c.k \in {"SparselyBin"} -> Mx({Me, Mag(c.nan)} \cup {Mag(c.bins[key]) : key \in DOMAIN c.bins})
    [] c.k = "Categorize" -> Mx({Me} \cup {Mag(c.bins[key]) : key \in DOMAIN c.bins})
    [] c.k \in SeqBinKinds -> Mx({Me, Mag(c.nan)} \cup {Mag(c.bins[i]) : i \in DOMAIN c.bins})
    [] c.k = "Fraction" -> Mx({Me, Mag(c.num), Mag(c.den)})
    [] c.k = "Select" -> Mx({Me, Mag(c.cut)})
    [] c.k \in {"Label", "UntypedLabel"} -> Mx({Me} \cup {Mag(c.pairs[key]) : key \in DOMAIN c.pairs})
    [] c.k \in {"Index", "Branch"} -> Mx({Me} \cup {Mag(c.vals[i]) : i \in DOMAIN c.vals})
Budget == 4096

-----------------------------------------------------------------------------
(* The specification's answer for the current event: which slot is the     *)
(* target, must the call raise, the expected content / descriptor /        *)
(* mutability of the target, whether the result must be a fresh object.    *)
(*   how = "det"    : content determined exactly                            *)
(*         "strip"  : determined up to zero-weight sparse bins (fill.numpy) *)
(*         "pure"   : no slot may change                                    *)
(*         "drop"   : the slot disappears                                   *)
X(tgt, exc, c, d, mut, fresh, how) ==
  [tgt |-> tgt, exc |-> exc, may |-> FALSE, c |-> c, d |-> d, dt |-> d, mut |-> mut, fresh |-> fresh, how |-> how]

Ones(n) == [i \in 1..n |-> Q(1)]
NumpyWs == IF Ev.wf = "one" THEN Ones(Len(Ev.rows))
           ELSE IF Ev.wf = "scalar" THEN [i \in 1..Len(Ev.rows) |-> Ev.wsc]
           ELSE Ev.ws

Expect ==
  LET op == Ev.op IN
  CASE op \in {"New", "NewDefault", "NewShared", "NewConv"} ->
         (* (ed: a collection put together with .ed(entries, children): it holds entries from the start) *)
         X(Ev.s, FALSE, IF "ed" \in DOMAIN Ev.d THEN [Zero(Ev.d) EXCEPT !.e = Ev.d.ed] ELSE Zero(Ev.d), Ev.d, TRUE, TRUE, "det")
    [] op = "MH" ->
         (* make_histograms: the histogram of feature Ev.cols is the fold of Fill over the rows, for the tree that
            the RETURNED bin specifications describe *)
         LET tree == TreeOf(Ev.cols, Ev.specs, Ev.dts) IN
         X(Ev.t, FALSE, MakeHist(Ev.rows, Ev.cols, Ev.specs, Ev.dts), tree, TRUE, TRUE, "strip")
    (* an aggregator that came out of JSON (or has such parts: ~p.mut) refuses to be filled, or parts of it do: a fill
       of it may raise (and then changes nothing); when it does not raise it fills like any other *)
    [] op = "Fill" ->
         LET p == pool[Ev.s] IN
         [X(Ev.s, SharedFillable(p.d) \/ Raises(p.c, p.d, Ev.x, Ev.w), Fill(p.c, p.d, Ev.x, Ev.w), p.d, p.mut, FALSE, "det")
            EXCEPT !.may = ~p.mut]
    [] op \in {"FillNoW", "Increment"} ->
         LET p == pool[Ev.s] IN
         [X(Ev.s, SharedFillable(p.d) \/ Raises(p.c, p.d, Ev.x, Q(1)), Fill(p.c, p.d, Ev.x, Q(1)), p.d, p.mut, FALSE, "det")
            EXCEPT !.may = ~p.mut]
    [] op = "FillNumpy" ->
         LET p == pool[Ev.s] IN
         [X(Ev.s, SharedFillable(p.d), FoldFill(p.c, p.d, Ev.rows, NumpyWs), p.d, p.mut, FALSE, "strip")
            EXCEPT !.may = ~p.mut]
    [] op \in {"Add", "Combine"} ->
         (* the merge MUST be refused when even what the operands know about themselves conflicts (CompatD on d),
            MUST succeed when their true structures agree (CompatD on dt), and in between - a reloaded operand whose
            empty sparse parts hide a difference that other parts reveal - it may do either *)
         LET a == pool[Ev.a] b == pool[Ev.b] conflict == ~CompatD(a.d, b.d) agree == CompatD(a.dt, b.dt) IN
         [X(Ev.t, conflict, IF agree THEN Merge(a.c, b.c) ELSE a.c, a.d, a.mut /\ b.mut, TRUE, IF agree THEN "det" ELSE "free")
            EXCEPT !.may = ~conflict /\ ~agree, !.dt = a.dt]
    [] op = "IAdd" ->
         LET a == pool[Ev.a] b == pool[Ev.b] conflict == ~CompatD(a.d, b.d) agree == CompatD(a.dt, b.dt) IN
         [X(Ev.a, conflict, IF agree THEN Merge(a.c, b.c) ELSE a.c, a.d, a.mut /\ b.mut, FALSE, IF agree THEN "det" ELSE "free")
            EXCEPT !.may = ~conflict /\ ~agree, !.dt = a.dt]
    [] op = "Mul" ->
         (* a transformed Count cannot be rescaled: for f > 0 the call must raise; for f <= 0 / NaN
            the result is the empty aggregator, and raising is tolerated as well *)
         LET a == pool[Ev.a] sq == HasSqCount(a.d) pos == Gt(Ev.f, Q(0)) IN
         [X(Ev.t, sq /\ pos, IF sq /\ pos THEN a.c ELSE Scale(a.c, a.d, Ev.f), a.d, a.mut, TRUE, "det")
            EXCEPT !.may = sq /\ ~pos, !.dt = a.dt]
    [] op = "Zero" -> LET a == pool[Ev.a] IN [X(Ev.t, FALSE, Zero(a.d), a.d, a.mut, TRUE, "det") EXCEPT !.dt = a.dt]
    [] op = "Histogram" -> LET a == pool[Ev.a] IN X(Ev.t, FALSE, Histo(a.c), HistoD(a.d), a.mut, TRUE, "det")
    [] op = "StackBuild" ->
         LET cs == [i \in DOMAIN Ev.srcs |-> pool[Ev.srcs[i]].c]
             d1 == pool[Ev.srcs[1]].d
         IN X(Ev.t, FALSE, StackBuilt(cs),
              [k |-> "Stack", q |-> "?", nm |-> "", fid |-> "", form |-> "none", thresholds |-> [i \in 1..(Len(cs) - 1) |-> NaN],
               value |-> d1, nan |-> [k |-> "Count", tr |-> "id"]], FALSE, TRUE, "det")
    [] op = "FractionBuild" ->
         LET a == pool[Ev.a] b == pool[Ev.b] ok == CompatD(a.d, b.d) IN
         X(Ev.t, ~ok, IF ok THEN FractionBuilt(a.c, b.c) ELSE a.c,
           [k |-> "Fraction", q |-> "?", nm |-> "", fid |-> "", form |-> "none", value |-> a.d], FALSE, TRUE, "det")
    [] op = "Copy" -> LET a == pool[Ev.a] IN [X(Ev.t, FALSE, a.c, a.d, a.mut, TRUE, "det") EXCEPT !.dt = a.dt]
    [] op = "Pickle" -> LET a == pool[Ev.a] IN [X(Ev.t, FALSE, a.c, a.d, a.mut, TRUE, "det") EXCEPT !.dt = a.dt]
    [] op \in {"Reload", "Immutable"} ->
         (* the reloaded container knows what the document says: Forget *)
         LET a == pool[Ev.a] IN [X(Ev.t, FALSE, a.c, Forget(a.d, a.c), FALSE, TRUE, "det") EXCEPT !.dt = a.dt]
    [] op \in {"Eq", "EqNear", "Read", "Doc", "CatView", "Grid2D", "Acc"} -> X(0, FALSE, Absent.c, DummyD, FALSE, FALSE, "pure")
    [] op = "View" ->
         [X(0, FALSE, Absent.c, DummyD, FALSE, FALSE, "pure")
            EXCEPT !.may = ~ViewDefined(pool[Ev.a].c, Ev.hasLo, Ev.qlo, Ev.hasHi, Ev.qhi)]
    [] op = "FromDoc" ->
         (* loading a document: must raise iff the document is invalid; unspecified documents may do either *)
         (* ... except that a document toJson itself produced (Ev.mkind = "none") must always load - also where it   *)
         (* holds what the model calls unspecified, e.g. JSON booleans written for boolean-valued quantities         *)
         LET st == Parse(Ev.doc).st IN
         [X(0, st = "invalid" /\ Ev.mkind # "none", Absent.c, DummyD, FALSE, FALSE, "pure")
            EXCEPT !.may = (st = "unspec" /\ Ev.mkind # "none")]
    [] op = "Drop" -> X(Ev.s, FALSE, Absent.c, DummyD, FALSE, FALSE, "drop")

-----------------------------------------------------------------------------
(* ghost multiset after the event, as the specification prescribes          *)
BagAfter(E) ==
  LET op == Ev.op IN
  IF ~WantSem \/ ~Ok \/ E.exc THEN bag ELSE
  CASE op \in {"New", "NewDefault", "NewConv", "Zero"} -> [bag EXCEPT ![E.tgt] = EmptyBag]
    [] op = "MH" ->
         LET RECURSIVE GoR(_, _)
             GoR(B, i) == IF i > Len(Ev.rows) THEN B ELSE GoR(B (+) SetToBag({<<Ev.rows[i], Q(1)>>}), i + 1)
         IN [bag EXCEPT ![Ev.t] = GoR(EmptyBag, 1)]
    [] op = "Fill" -> [bag EXCEPT ![Ev.s] = IF Gt(Ev.w, Q(0)) THEN @ (+) SetToBag({<<Ev.x, Ev.w>>}) ELSE @]
    [] op \in {"FillNoW", "Increment"} -> [bag EXCEPT ![Ev.s] = @ (+) SetToBag({<<Ev.x, Q(1)>>})]
    [] op = "FillNumpy" ->
         LET ws == NumpyWs
             RECURSIVE Go(_, _)
             Go(B, i) == IF i > Len(Ev.rows) THEN B
                         ELSE Go(IF Gt(ws[i], Q(0)) THEN B (+) SetToBag({<<Ev.rows[i], ws[i]>>}) ELSE B, i + 1)
         IN [bag EXCEPT ![Ev.s] = Go(@, 1)]
    [] op \in {"Add", "Combine"} -> [bag EXCEPT ![Ev.t] = bag[Ev.a] (+) bag[Ev.b]]
    [] op = "IAdd" -> [bag EXCEPT ![Ev.a] = bag[Ev.a] (+) bag[Ev.b]]
    [] op = "Mul" -> [bag EXCEPT ![Ev.t] = ScaleBag(bag[Ev.a], Ev.f)]
    [] op \in {"Histogram", "StackBuild", "FractionBuild"} -> [bag EXCEPT ![Ev.t] = EmptyBag]
    [] op \in {"Copy", "Pickle", "Reload", "Immutable"} -> [bag EXCEPT ![Ev.t] = bag[Ev.a]]
    [] op = "Drop" -> [bag EXCEPT ![Ev.s] = EmptyBag]
    [] OTHER -> bag

-----------------------------------------------------------------------------
(* the clauses                                                              *)
EqFlags(E) ==
  LET a == pool[Ev.a] b == pool[Ev.b] r == Ev.res
      same == a.c = b.c /\ a.d.k = b.d.k
  IN /\ r.ab = r.ba                           \* symmetric
     /\ r.ne = ~r.ab                          \* != is the negation
     /\ (~same => ~r.ab)                      \* == implies equal content
     /\ (Ev.must => r.ab)                     \* identity / copy / clone / reload lineage
     /\ (r.ab => r.tab) /\ r.tab = r.tba      \* tolerances only widen

Clauses(E) ==
  LET tgt == E.tgt
      changedOthers == ChSlots \ {tgt}
      shapeOK == \/ ~Ok \/ E.how \in {"pure", "drop", "free"} \/ E.exc
                 \/ (tgt \in ChSlots => ShapeOK(ObsC(tgt), E.d)) /\ (tgt \notin ChSlots => ShapeOK(pool[tgt].c, E.d))
      stateOK ==
        \/ ~Ok \/ E.exc \/ E.how \in {"pure", "drop", "free"} \/ ~shapeOK
        \/ IF E.how = "strip"
           THEN Strip(ObsC(tgt)) = Strip(E.c) /\ ZeroBinsEmpty(ObsC(tgt), E.d)
           ELSE ObsC(tgt) = E.c
      overBudget == Ok /\ ~E.exc /\ E.how \in {"det", "strip"} /\ Mag(E.c) > Budget
  IN
  [ outcome  |-> IF Ok THEN ~E.exc ELSE (E.exc \/ E.may),
    shape    |-> shapeOK,
    budget   |-> ~overBudget,
    state    |-> overBudget \/ stateOK,
    (* a call that raises leaves every slot as it was - also bit for bit (Ev.raw: slots whose exact serialisation
       changed) *)
    unchanged |-> Ok \/ (ChSlots = {} /\ Ev.raw = <<>>),
    (* a call changes at most its target *)
    frame    |-> ~Ok \/ (changedOthers = {} /\ {Ev.raw[i] : i \in DOMAIN Ev.raw} \subseteq {tgt}),
    identity |-> \/ ~Ok \/ E.exc \/ E.how \in {"pure", "drop"}
                 \/ IF E.fresh THEN ObsOid(tgt) \notin LiveOids ELSE ObsOid(tgt) = pool[tgt].oid,
    noshare  |-> T.sharing \/ Ev.sh = <<>>,
    wf       |-> (* bookkeeping invariants of the target and of every other slot that changed *)
                 /\ \/ ~Ok \/ ~shapeOK \/ E.exc \/ E.how \in {"pure", "drop", "free"} \/ overBudget
                    \/ (Ev.op = "NewShared" /\ "ed" \in DOMAIN Ev.d)     \* (.ed(entries, parts) states the entries itself)
                    \/ WF(ObsC(tgt), E.d)
                 /\ \A s \in changedOthers : (pool[s].live /\ ShapeOK(ObsC(s), pool[s].d)) => WF(ObsC(s), pool[s].d),
    flags    |-> \/ ~Ok
                 \/ CASE Ev.op = "FillNumpy" -> Ev.inputs_unchanged
                      [] Ev.op = "Reload" -> Ev.strict /\ Ev.fixpoint
                      [] Ev.op = "Increment" -> Ev.same
                      [] Ev.op = "MH" -> (* the caller's frame is untouched, every row is counted, and a call that was given
                                            the specifications an earlier call returned bins with exactly those (so
                                            that chunks add up to the whole) *)
                                         Ev.df_unchanged /\ Ev.nfeat /\ Ev.kept
                      [] Ev.op = "Eq" -> EqFlags(E)
                      (* a copy with one numeric field moved by one ulp: equal under tolerance 1e-12, unequal under
                         tolerance 0, equal again under 1e-12 (positive tolerances only widen; no verdict is remembered) *)
                      [] Ev.op = "EqNear" -> ~Ev.res.nudged \/ (Ev.res.t1 /\ ~Ev.res.z /\ Ev.res.zne /\ Ev.res.t2)
                      [] Ev.op = "View" -> ViewOK(pool[Ev.a].c, Ev.hasLo, Ev.qlo, Ev.hasHi, Ev.qhi, Ev.xs, Ev.res)
                      [] Ev.op = "CatView" -> CatViewOK(pool[Ev.a].c, Ev.res)
                      [] Ev.op = "Grid2D" -> Grid2DOK(pool[Ev.a].c, Ev.res)
                      [] Ev.op = "Acc" -> AccBad(pool[Ev.a].c, Ev.xs, Ev.ks, Ev.res) = {}
                      [] Ev.op = "NewConv" -> ConvOK(Ev.conv, Ev.d)     \* the tree this convenience name stands for
                      [] Ev.op = "Doc" -> /\ Strict(Ev.doc)
                                          /\ DocEq(Ev.doc, ToDoc(pool[Ev.a].c, pool[Ev.a].d))
                      [] Ev.op = "FromDoc" ->
                           LET r == Parse(Ev.doc) IN
                           (* a valid document is loaded without loss: what the loaded object serialises to is the
                              canonical document of the parsed content - or the given document itself (sibling bins
                              may differ in optional keys, e.g. an empty sparse bin without its child's name, which
                              one shared descriptor cannot express) *)
                           r.st = "valid" => (DocEq(Ev.redoc, ToDoc(r.c, r.d)) \/ DocEq(Ev.redoc, Ev.doc))
                      [] OTHER -> TRUE,
    sem      |-> \/ ~WantSem \/ ~Ok \/ E.exc \/ ~shapeOK \/ overBudget \/ E.how \in {"pure", "drop", "free"}
                 \/ Ev.op \in {"Histogram", "StackBuild", "FractionBuild"}
                 \/ IF E.how = "strip" \/ T.strip THEN Strip(ObsC(tgt)) = Strip(Sem(E.d, BagAfter(E)[tgt]))
                    ELSE ObsC(tgt) = Sem(E.d, BagAfter(E)[tgt]) ]

(* Named deviations (known findings, DESIGN 9): the specification says which documented deviation of
   the implementation, if any, explains a failing clause of this event.  A deviation is identified by
   the class of input and the call site (its guard) and, where it is cheap, by the exact state it
   predicts; anything else that goes wrong - including a different wrong value at the same call -
   stays unexplained and is reported as a violation. *)
DevFor(E, cl) ==
  LET op == Ev.op IN
  IF op = "IAdd" /\ cl = "unchanged" /\ (E.exc \/ E.may) /\ ~Ok
     /\ RootCompat(pool[Ev.a].d, pool[Ev.b].d) /\ ChSlots \subseteq {Ev.a}
     /\ {Ev.raw[i] : i \in DOMAIN Ev.raw} \subseteq {Ev.a}
    THEN "Dev_IAddNestedNonAtomic"
  ELSE IF op = "FillNumpy" /\ cl \in {"state", "sem"} /\ Ok
          /\ Strip(ObsC(E.tgt)) = Strip(FoldFillM(pool[Ev.s].c, pool[Ev.s].d, Ev.rows, NumpyWs, "npsum"))
    THEN "Dev_SumNumpyDropsNaN"
  ELSE IF op = "MH" /\ cl \in {"state", "sem"} /\ Ok
          /\ LET tree == TreeOf(Ev.cols, Ev.specs, Ev.dts) IN
             Strip(ObsC(E.tgt)) = Strip(FoldFillM(Zero(tree), tree, Ev.rows, Ones(Len(Ev.rows)), "npsum"))
    THEN "Dev_SumNumpyDropsNaN"      \* make_histograms fills through fill.numpy
  ELSE IF op = "FillNumpy" /\ cl \in {"state", "sem", "outcome", "unchanged", "wf"}
          /\ Ev.wf \in {"one", "scalar"} /\ LeadCount(pool[Ev.s].d)
          /\ Ev.lead     \* (... and that Count comes first in the traversal: after a quantity-bearing sibling the batch length is known)
    THEN "Dev_LeadingCountScalarWeight"
  ELSE IF op \in {"Add", "Combine", "IAdd"} /\ cl \in {"state", "sem", "wf"} /\ Ok /\ Ev.boolstr
          /\ (~pool[Ev.a].mut \/ ~pool[Ev.b].mut)
          /\ T.catmode = "bool"      \* (the history really fed booleans: with the STRINGS "True" / "False" nothing may change type)
    (* Categorize takes booleans as categories, JSON object keys are strings: a reloaded operand holds "True" where
       the live one holds True, the merge keeps both (Ev.boolstr: the harness saw such a pair in the result) *)
    THEN "Dev_ReloadedBoolCategoriesAreStrings"
  ELSE IF op = "Reload" /\ cl = "flags" /\ Ok /\ Ev.strict /\ ~Ev.fixpoint
          /\ EmptySparseNamed(pool[Ev.a].c, pool[Ev.a].d)
    THEN "Dev_ReloadedEmptySparseLosesChildName"
  ELSE IF op = "Doc" /\ cl = "flags" /\ Ok /\ ~pool[Ev.a].mut /\ Strict(Ev.doc)
          /\ EmptySparseNamed(pool[Ev.a].c, pool[Ev.a].d)
    THEN "Dev_ReloadedEmptySparseLosesChildName"
  ELSE ""

ClauseNames == {"outcome", "shape", "budget", "state", "unchanged", "frame", "identity", "noshare", "wf", "flags", "sem"}

Report(E, cl) ==
  PrintT(ToJson([t |-> T.id, l |-> l, op |-> Ev.op, cl |-> cl, dev |-> DevFor(E, cl),
                 exp |-> IF cl \in {"state", "sem"} /\ E.how \in {"det", "strip"} THEN <<E.c>> ELSE <<>>,
                 obs |-> IF cl \in {"state", "sem", "wf", "shape"} /\ E.tgt # 0 THEN <<ObsC(E.tgt)>>
                         ELSE IF cl = "flags" /\ Ev.op = "Acc" /\ Ok
                              THEN <<AccBad(pool[Ev.a].c, Ev.xs, Ev.ks, Ev.res)>>     \* the accessors that disagree
                         ELSE <<>>]))

(* after these failures the rest of the trace cannot be interpreted        *)
Fatal(F) == ~F.shape \/ ~F.budget \/ (Ok /\ ~F.outcome) \/ (Ok /\ Expect.how = "free")

PoolAfter(E) ==
  [s \in 1..NS |->
     IF E.how = "drop" /\ s = E.tgt /\ Ok THEN Absent
     ELSE LET p == pool[s]
              q == IF s \in ChSlots THEN [p EXCEPT !.live = TRUE, !.c = ChOf(s).c, !.oid = ChOf(s).oid] ELSE p
          IN IF s = E.tgt /\ Ok /\ ~E.exc THEN [q EXCEPT !.live = TRUE, !.d = E.d, !.dt = E.dt, !.mut = E.mut] ELSE q]

Next ==
  /\ l <= Len(T.events)
  /\ LET E == Expect
         F == Clauses(E)
         bad == {cl \in ClauseNames : ~F[cl]}
     IN /\ \A cl \in bad : Report(E, cl)
        /\ pool' = PoolAfter(E)
        /\ bag' = BagAfter(E)
        /\ l' = IF Fatal(F) THEN Len(T.events) + 1 ELSE l + 1
  /\ UNCHANGED tid

Spec == Init /\ [][Next]_vars

(* number of events judged, for the evidence                                *)
Done == TRUE
=============================================================================
