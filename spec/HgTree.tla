------------------------------- MODULE HgTree -------------------------------
(***************************************************************************)
(* Operational semantics of the 19 Histogrammar primitives.                *)
(*                                                                         *)
(* A *descriptor* d is the static "program": the tree of primitives with   *)
(* its structural parameters, the datum field each quantity reads (q), the *)
(* user-visible quantity name (nm), and a fault id (fid) used by the       *)
(* failing-quantity scenarios.                                             *)
(*                                                                         *)
(* A *content* c is everything that is observable on a live aggregator     *)
(* through public attributes: kind, entries, accumulators, structural      *)
(* parameters (low/high, binWidth/origin, centres, thresholds, range,      *)
(* declared content type), quantity name, and the contents of children.    *)
(* The harness' projection pi produces exactly this shape, so contents     *)
(* recorded from the implementation are compared with `=`.                 *)
(*                                                                         *)
(* The operators are shaped like the code: one CASE arm per primitive and  *)
(* the same case analysis (weight gate, NaN / inf ladders, half-open       *)
(* intervals, nearest centre with ties upward, cumulative thresholds,      *)
(* key-union merges, empty-side short circuits).                           *)
(***************************************************************************)
EXTENDS HgNum

EmptyMap == [x \in {} |-> 0]
Put(f, k, v) == [x \in DOMAIN f \cup {k} |-> IF x = k THEN v ELSE f[x]]
Idx(s) == DOMAIN s
RangeOf(sq) == {sq[i] : i \in DOMAIN sq}

PSat == "9223372036854775807"       \* LONG_PLUSINF  (sparse index of +inf)
MSat == "-9223372036854775807"      \* LONG_MINUSINF (sparse index of -inf)

LeafKinds == {"Count", "Sum", "Average", "Deviate", "Minimize", "Maximize", "Bag"}
SeqBinKinds == {"CentrallyBin", "IrregularlyBin", "Stack"}
Kinds == LeafKinds \cup SeqBinKinds \cup
         {"Bin", "SparselyBin", "Categorize", "Fraction", "Select",
          "Label", "UntypedLabel", "Index", "Branch"}

HasQ(d) == d.k \notin {"Count", "Label", "UntypedLabel", "Index", "Branch"}

-----------------------------------------------------------------------------
(* Quantities.  A quantity either reads one field of the datum (d.q) or is  *)
(* an expression over the datum's fields (d.qe), the abstract syntax of a   *)
(* string-expression quantity / of the equivalent Python function (C17):    *)
(*   [t |-> "f", name]  field      [t |-> "c", v]  constant                 *)
(*   [t |-> "add" | "sub" | "mul", a, b]   [t |-> "neg", a]                  *)
(*   [t |-> "lt" | "ge", a, b]   [t |-> "and" | "or", a, b]   [t |-> "not", a] *)
(* Arithmetic is IEEE-like (HgNum); comparisons with NaN are FALSE; a        *)
(* boolean used as a quantity counts as 1 / 0.                               *)
RECURSIVE EvalE(_, _)
EvalE(e, x) ==
  CASE e.t = "f" -> x[e.name]
    [] e.t = "c" -> e.v
    [] e.t = "add" -> Add(EvalE(e.a, x), EvalE(e.b, x))
    [] e.t = "sub" -> Sub(EvalE(e.a, x), EvalE(e.b, x))
    [] e.t = "mul" -> Mul(EvalE(e.a, x), EvalE(e.b, x))
    [] e.t = "neg" -> Neg(EvalE(e.a, x))
    [] e.t = "lt" -> Lt(EvalE(e.a, x), EvalE(e.b, x))
    [] e.t = "ge" -> Ge(EvalE(e.a, x), EvalE(e.b, x))
    [] e.t = "and" -> EvalE(e.a, x) /\ EvalE(e.b, x)
    [] e.t = "or" -> EvalE(e.a, x) \/ EvalE(e.b, x)
    [] e.t = "not" -> ~EvalE(e.a, x)
BoolE(e) == e.t \in {"lt", "ge", "and", "or", "not"}
QV(d, x) == IF "qe" \in DOMAIN d
            THEN (IF BoolE(d.qe) THEN (IF EvalE(d.qe, x) THEN Q(1) ELSE Q(0)) ELSE EvalE(d.qe, x))
            ELSE x[d.q]

-----------------------------------------------------------------------------
(* Zero(d): the empty aggregator for descriptor d (every constructor and    *)
(* every zero())                                                            *)
RECURSIVE Zero(_)
Zero(d) ==
  CASE d.k = "Count"    -> [k |-> "Count", e |-> Q(0)]
    [] d.k = "Sum"      -> [k |-> "Sum", e |-> Q(0), s |-> Q(0), nm |-> d.nm]
    [] d.k = "Average"  -> [k |-> "Average", e |-> Q(0), mean |-> NaN, nm |-> d.nm]
    [] d.k = "Deviate"  -> [k |-> "Deviate", e |-> Q(0), mean |-> NaN, vte |-> NaN, nm |-> d.nm]
    [] d.k = "Minimize" -> [k |-> "Minimize", e |-> Q(0), min |-> NaN, nm |-> d.nm]
    [] d.k = "Maximize" -> [k |-> "Maximize", e |-> Q(0), max |-> NaN, nm |-> d.nm]
    [] d.k = "Bag"      -> [k |-> "Bag", e |-> Q(0), range |-> d.range, vals |-> EmptyMap, nm |-> d.nm]
    [] d.k = "Bin" ->
         [k |-> "Bin", e |-> Q(0), lo |-> d.lo, hi |-> d.hi,
          vals |-> [i \in 1..d.num |-> Zero(d.value)],
          under |-> Zero(d.under), over |-> Zero(d.over), nan |-> Zero(d.nan), nm |-> d.nm]
    [] d.k = "SparselyBin" ->
         [k |-> "SparselyBin", e |-> Q(0), width |-> d.width, origin |-> d.origin,
          ctype |-> d.value.k, bins |-> EmptyMap, nan |-> Zero(d.nan), nm |-> d.nm]
    [] d.k = "CentrallyBin" ->
         [k |-> "CentrallyBin", e |-> Q(0), centers |-> d.centers,
          bins |-> [i \in Idx(d.centers) |-> Zero(d.value)], nan |-> Zero(d.nan), nm |-> d.nm]
    [] d.k = "IrregularlyBin" ->
         [k |-> "IrregularlyBin", e |-> Q(0), ths |-> <<NInf>> \o d.edges,
          bins |-> [i \in 1..(Len(d.edges) + 1) |-> Zero(d.value)], nan |-> Zero(d.nan), nm |-> d.nm]
    [] d.k = "Stack" ->
         [k |-> "Stack", e |-> Q(0), ths |-> <<NInf>> \o d.thresholds,
          bins |-> [i \in 1..(Len(d.thresholds) + 1) |-> Zero(d.value)], nan |-> Zero(d.nan), nm |-> d.nm]
    [] d.k = "Categorize" ->
         [k |-> "Categorize", e |-> Q(0), ctype |-> d.value.k, bins |-> EmptyMap, nm |-> d.nm]
    [] d.k = "Fraction" ->
         [k |-> "Fraction", e |-> Q(0), num |-> Zero(d.value), den |-> Zero(d.value), nm |-> d.nm]
    [] d.k = "Select" ->
         [k |-> "Select", e |-> Q(0), cut |-> Zero(d.cut), nm |-> d.nm]
    [] d.k \in {"Label", "UntypedLabel"} ->
         [k |-> d.k, e |-> Q(0), pairs |-> [key \in DOMAIN d.pairs |-> Zero(d.pairs[key])]]
    [] d.k \in {"Index", "Branch"} ->
         [k |-> d.k, e |-> Q(0), vals |-> [i \in Idx(d.vals) |-> Zero(d.vals[i])]]

-----------------------------------------------------------------------------
(* Routing                                                                  *)

(* Bin: floor(num*(x-low)/(high-low)) for low <= x < high, 0-based           *)
BinIndex(c, x) == FloorQ(Div(Mul(Q(Len(c.vals)), Sub(x, c.lo)), Sub(c.hi, c.lo)))

(* SparselyBin: floor((x-origin)/binWidth), saturating for +-inf             *)
SparseKey(c, x) == IF x = PInf THEN PSat ELSE IF x = NInf THEN MSat
                   ELSE ToString(FloorQ(Div(Sub(x, c.origin), c.width)))

(* CentrallyBin: first i with x < (c_i + c_{i+1})/2, else the last (ties go  *)
(* to the upper bin)                                                         *)
Mid(cs, i) == Div(Add(cs[i], cs[i + 1]), Q(2))
CentralIndex(cs, x) ==
  LET n == Len(cs)
      S == {i \in 1..(n - 1) : Lt(x, Mid(cs, i))}
  IN IF S = {} THEN n ELSE CHOOSE i \in S : \A j \in S : i <= j

(* IrregularlyBin: the i with ths[i] <= x < ths[i+1] (last one unbounded)    *)
IrrIndex(ths, x) ==
  LET n == Len(ths)
      S == {i \in 1..n : Ge(x, ths[i]) /\ (i = n \/ ~Ge(x, ths[i + 1]))}
  IN IF S = {} THEN 0 ELSE CHOOSE i \in S : \A j \in S : i <= j

(* Categorize: None / NaN go to the "NaN" category                           *)
CatOf(cat) == IF cat = "None" THEN "NaN" ELSE cat

BagKey(d, x) == CASE d.range = "N"  -> KeyN(QV(d, x))
                  [] d.range = "N2" -> KeyN(x.x) \o "," \o KeyN(x.y)
                  [] d.range = "S"  -> "s:" \o x.c

(* Finch's incremental weighted mean with the NaN / inf ladder of            *)
(* Average.fill / Deviate.fill                                               *)
MeanStep(m0, q, w, e1) ==
  IF IsNaN(m0) \/ IsNaN(q) THEN NaN
  ELSE IF IsInf(m0) \/ IsInf(q)
       THEN (IF IsInf(m0) /\ IsInf(q) /\ m0 # q THEN NaN ELSE IF IsInf(q) THEN q ELSE m0)
  ELSE Add(m0, Div(Mul(Sub(q, m0), w), e1))

CountStep(d, w) == IF d.tr = "sq" THEN Mul(w, w) ELSE w

-----------------------------------------------------------------------------
(* Fill(c, d, x, w): content after fill(datum x, weight w).                 *)
RECURSIVE FillM(_, _, _, _, _)
FillM(c, d, x, w, m) ==
  IF ~Gt(w, Q(0)) THEN c ELSE
  LET e1 == Add(c.e, w) IN
  CASE d.k = "Count" -> [c EXCEPT !.e = Add(@, CountStep(d, w))]
    [] d.k = "Sum" ->
         (* named deviation Dev_SumNumpyDropsNaN (mode "npsum"): the vectorised Sum counts a row whose
            quantity is NaN in entries but leaves it out of the sum *)
         IF m = "npsum" /\ IsNaN(QV(d, x)) THEN [c EXCEPT !.e = e1]
         ELSE [c EXCEPT !.e = e1, !.s = Add(@, Mul(QV(d, x), w))]
    [] d.k = "Average" ->
         LET q == QV(d, x)
             m0 == IF c.e = Q(0) THEN q ELSE c.mean
         IN [c EXCEPT !.e = e1, !.mean = MeanStep(m0, q, w, e1)]
    [] d.k = "Deviate" ->
         LET q == QV(d, x)
             m0 == IF c.e = Q(0) THEN q ELSE c.mean
             v0 == IF c.e = Q(0) THEN Q(0) ELSE c.vte
             m1 == MeanStep(m0, q, w, e1)
             v1 == IF IsNaN(m0) \/ IsNaN(q) \/ IsInf(m0) \/ IsInf(q) THEN NaN
                   ELSE Add(v0, Mul(Mul(w, Sub(q, m0)), Sub(q, m1)))
         IN [c EXCEPT !.e = e1, !.mean = m1, !.vte = v1]
    [] d.k = "Minimize" ->
         LET q == QV(d, x) IN [c EXCEPT !.e = e1, !.min = IF IsNaN(@) \/ Lt(q, @) THEN q ELSE @]
    [] d.k = "Maximize" ->
         LET q == QV(d, x) IN [c EXCEPT !.e = e1, !.max = IF IsNaN(@) \/ Gt(q, @) THEN q ELSE @]
    [] d.k = "Bag" ->
         LET key == BagKey(d, x)
         IN [c EXCEPT !.e = e1,
                      !.vals = Put(@, key, IF key \in DOMAIN @ THEN Add(@[key], w) ELSE w)]
    [] d.k = "Bin" ->
         LET q == QV(d, x) IN
         IF IsNaN(q) THEN [c EXCEPT !.e = e1, !.nan = FillM(@, d.nan, x, w, m)]
         ELSE IF Lt(q, c.lo) THEN [c EXCEPT !.e = e1, !.under = FillM(@, d.under, x, w, m)]
         ELSE IF Ge(q, c.hi) THEN [c EXCEPT !.e = e1, !.over = FillM(@, d.over, x, w, m)]
         ELSE LET i == BinIndex(c, q) + 1
              IN [c EXCEPT !.e = e1, !.vals[i] = FillM(@, d.value, x, w, m)]
    [] d.k = "SparselyBin" ->
         LET q == QV(d, x) IN
         IF IsNaN(q) THEN [c EXCEPT !.e = e1, !.nan = FillM(@, d.nan, x, w, m)]
         ELSE LET key == SparseKey(c, q)
                  old == IF key \in DOMAIN c.bins THEN c.bins[key] ELSE Zero(d.value)
              IN [c EXCEPT !.e = e1, !.bins = Put(@, key, FillM(old, d.value, x, w, m))]
    [] d.k = "CentrallyBin" ->
         LET q == QV(d, x) IN
         IF IsNaN(q) THEN [c EXCEPT !.e = e1, !.nan = FillM(@, d.nan, x, w, m)]
         ELSE LET i == CentralIndex(c.centers, q)
              IN [c EXCEPT !.e = e1, !.bins[i] = FillM(@, d.value, x, w, m)]
    [] d.k = "IrregularlyBin" ->
         LET q == QV(d, x) IN
         IF IsNaN(q) THEN [c EXCEPT !.e = e1, !.nan = FillM(@, d.nan, x, w, m)]
         ELSE LET i == IrrIndex(c.ths, q)
              IN IF i = 0 THEN [c EXCEPT !.e = e1]
                 ELSE [c EXCEPT !.e = e1, !.bins[i] = FillM(@, d.value, x, w, m)]
    [] d.k = "Stack" ->
         LET q == QV(d, x) IN
         IF IsNaN(q) THEN [c EXCEPT !.e = e1, !.nan = FillM(@, d.nan, x, w, m)]
         ELSE [c EXCEPT !.e = e1,
                        !.bins = [i \in DOMAIN @ |-> IF Ge(q, c.ths[i]) THEN FillM(@[i], d.value, x, w, m)
                                                     ELSE @[i]]]
    [] d.k = "Categorize" ->
         LET key == CatOf(QV(d, x))
             old == IF key \in DOMAIN c.bins THEN c.bins[key] ELSE Zero(d.value)
         IN [c EXCEPT !.e = e1, !.bins = Put(@, key, FillM(old, d.value, x, w, m))]
    [] d.k = "Fraction" ->
         LET ws == Mul(QV(d, x), w)
         IN [c EXCEPT !.e = e1, !.den = FillM(@, d.value, x, w, m),
                      !.num = IF Gt(ws, Q(0)) THEN FillM(@, d.value, x, ws, m) ELSE @]
    [] d.k = "Select" ->
         LET ws == Mul(QV(d, x), w)
         IN [c EXCEPT !.e = e1, !.cut = IF Gt(ws, Q(0)) THEN FillM(@, d.cut, x, ws, m) ELSE @]
    [] d.k \in {"Label", "UntypedLabel"} ->
         [c EXCEPT !.e = e1, !.pairs = [key \in DOMAIN @ |-> FillM(@[key], d.pairs[key], x, w, m)]]
    [] d.k \in {"Index", "Branch"} ->
         [c EXCEPT !.e = e1, !.vals = [i \in DOMAIN @ |-> FillM(@[i], d.vals[i], x, w, m)]]

Fill(c, d, x, w) == FillM(c, d, x, w, "row")

RECURSIVE FoldFillM(_, _, _, _, _)
FoldFillM(c, d, rows, ws, m) ==
  IF rows = <<>> THEN c
  ELSE FoldFillM(FillM(c, d, Head(rows), Head(ws), m), d, Tail(rows), Tail(ws), m)
FoldFill(c, d, rows, ws) == FoldFillM(c, d, rows, ws, "row")

-----------------------------------------------------------------------------
(* Raises(c, d, x, w): does fill(x, w) reach a quantity that fails for x?   *)
(* A datum carries x.fa, the fault id of the quantity that fails on it ("" *)
(* for none).  A quantity is only evaluated behind the weight gate, and the *)
(* datum only travels along its routing path.                               *)
RECURSIVE Raises(_, _, _, _)
Raises(c, d, x, w) ==
  IF x.fa = "" \/ ~Gt(w, Q(0)) THEN FALSE ELSE
  CASE d.k = "Count" -> FALSE
    [] d.k \in {"Sum", "Average", "Deviate", "Minimize", "Maximize", "Bag"} -> d.fid = x.fa
    [] d.k = "Bin" ->
         d.fid = x.fa \/
         LET q == QV(d, x) IN
         IF IsNaN(q) THEN Raises(c.nan, d.nan, x, w)
         ELSE IF Lt(q, c.lo) THEN Raises(c.under, d.under, x, w)
         ELSE IF Ge(q, c.hi) THEN Raises(c.over, d.over, x, w)
         ELSE Raises(c.vals[BinIndex(c, q) + 1], d.value, x, w)
    [] d.k = "SparselyBin" ->
         d.fid = x.fa \/
         LET q == QV(d, x) IN
         IF IsNaN(q) THEN Raises(c.nan, d.nan, x, w)
         ELSE LET key == SparseKey(c, q)
              IN Raises(IF key \in DOMAIN c.bins THEN c.bins[key] ELSE Zero(d.value), d.value, x, w)
    [] d.k = "CentrallyBin" ->
         d.fid = x.fa \/
         LET q == QV(d, x) IN
         IF IsNaN(q) THEN Raises(c.nan, d.nan, x, w)
         ELSE Raises(c.bins[CentralIndex(c.centers, q)], d.value, x, w)
    [] d.k = "IrregularlyBin" ->
         d.fid = x.fa \/
         LET q == QV(d, x) IN
         IF IsNaN(q) THEN Raises(c.nan, d.nan, x, w)
         ELSE LET i == IrrIndex(c.ths, q) IN IF i = 0 THEN FALSE ELSE Raises(c.bins[i], d.value, x, w)
    [] d.k = "Stack" ->
         d.fid = x.fa \/
         LET q == QV(d, x) IN
         IF IsNaN(q) THEN Raises(c.nan, d.nan, x, w)
         ELSE \E i \in DOMAIN c.bins : Ge(q, c.ths[i]) /\ Raises(c.bins[i], d.value, x, w)
    [] d.k = "Categorize" ->
         d.fid = x.fa \/
         LET key == CatOf(QV(d, x))
         IN Raises(IF key \in DOMAIN c.bins THEN c.bins[key] ELSE Zero(d.value), d.value, x, w)
    [] d.k = "Fraction" ->
         d.fid = x.fa \/
         LET ws == Mul(QV(d, x), w)
         IN Raises(c.den, d.value, x, w) \/ (Gt(ws, Q(0)) /\ Raises(c.num, d.value, x, ws))
    [] d.k = "Select" ->
         d.fid = x.fa \/
         LET ws == Mul(QV(d, x), w) IN Gt(ws, Q(0)) /\ Raises(c.cut, d.cut, x, ws)
    [] d.k \in {"Label", "UntypedLabel"} ->
         \E key \in DOMAIN d.pairs : Raises(c.pairs[key], d.pairs[key], x, w)
    [] d.k \in {"Index", "Branch"} ->
         \E i \in DOMAIN d.vals : Raises(c.vals[i], d.vals[i], x, w)

(* single-path trees: the trees for which C12 promises full rollback        *)
RECURSIVE SinglePath(_)
SinglePath(d) ==
  CASE d.k \in LeafKinds -> TRUE
    [] d.k = "Bin" -> SinglePath(d.value) /\ SinglePath(d.under) /\ SinglePath(d.over) /\ SinglePath(d.nan)
    [] d.k \in {"SparselyBin", "CentrallyBin", "IrregularlyBin"} -> SinglePath(d.value) /\ SinglePath(d.nan)
    [] d.k = "Categorize" -> SinglePath(d.value)
    [] d.k = "Select" -> SinglePath(d.cut)
    [] OTHER -> FALSE

-----------------------------------------------------------------------------
(* Shared nodes (C16).  A descriptor node may carry a share id (field        *)
(* `share`, "" = none): the harness installs ONE Python object at every      *)
(* position carrying the same id.  Only some positions hold the user's       *)
(* object itself - the children of Label / UntypedLabel / Index / Branch and *)
(* the cut of Select; every other child position (Bin values and flows,      *)
(* sparse templates, Fraction, Stack, ...) holds copies made by the parent,  *)
(* so nothing below it is shared.  A tree is SharedFillable when one id      *)
(* occurs at two installed positions: filling it must raise.                 *)
ShareOf(d) == IF "share" \in DOMAIN d THEN d.share ELSE ""
RECURSIVE InstalledIds(_)
InstalledIds(d) ==      \* sequence of share ids at installed positions (with multiplicity)
  (* xid: one of this container's own children (a bin, a flow, the numerator ...) was taken out of it and installed  *)
  (* at another position of the tree as well, where it appears as a node with share id xid                          *)
  LET own == (IF ShareOf(d) = "" THEN <<>> ELSE <<ShareOf(d)>>) \o (IF "xid" \in DOMAIN d THEN <<d.xid>> ELSE <<>>) IN
  CASE d.k = "Select" -> own \o InstalledIds(d.cut)
    [] d.k \in {"Label", "UntypedLabel"} ->
         LET RECURSIVE Cat(_)
             Cat(S) == IF S = {} THEN <<>>
                       ELSE LET key == CHOOSE key \in S : TRUE IN InstalledIds(d.pairs[key]) \o Cat(S \ {key})
         IN own \o Cat(DOMAIN d.pairs)
    [] d.k \in {"Index", "Branch"} ->
         LET RECURSIVE CatS(_)
             CatS(i) == IF i > Len(d.vals) THEN <<>> ELSE InstalledIds(d.vals[i]) \o CatS(i + 1)
         IN own \o CatS(1)
    (* binning containers copy the flow aggregators their constructor is given; a flow marked inst was put in  *)
    (* place afterwards by assignment (h.nanflow = obj): the object itself sits at that position              *)
    [] d.k \in {"Bin", "SparselyBin", "CentrallyBin", "IrregularlyBin", "Stack"} ->
         LET Fl(f) == IF f \in DOMAIN d /\ "inst" \in DOMAIN d[f] /\ d[f].inst THEN InstalledIds(d[f]) ELSE <<>>
         IN own \o Fl("under") \o Fl("over") \o Fl("nan")
    [] OTHER -> own
SharedFillable(d) ==
  LET ids == InstalledIds(d) IN \E i, j \in DOMAIN ids : i # j /\ ids[i] = ids[j]

-----------------------------------------------------------------------------
(* Guards of named deviations (known findings, DESIGN 9)                    *)

(* a Count reachable from a collection root through collections only: with  *)
(* a scalar weight the vectorised fill cannot tell it the batch length       *)
RECURSIVE CountBelowCollections(_)
CountBelowCollections(d) ==
  CASE d.k = "Count" -> TRUE
    [] d.k \in {"Label", "UntypedLabel"} -> \E key \in DOMAIN d.pairs : CountBelowCollections(d.pairs[key])
    [] d.k \in {"Index", "Branch"} -> \E i \in DOMAIN d.vals : CountBelowCollections(d.vals[i])
    [] OTHER -> FALSE
LeadCount(d) == d.k \in {"Label", "UntypedLabel", "Index", "Branch"} /\ CountBelowCollections(d)

(* the operands' roots agree (what the root's += checks before it starts to  *)
(* mutate) but something below does not                                      *)
RootCompat(da, db) ==
  /\ da.k = db.k
  /\ CASE da.k = "Bag" -> da.range = db.range
       [] da.k = "Bin" -> da.num = db.num /\ da.lo = db.lo /\ da.hi = db.hi
       [] da.k = "SparselyBin" -> da.width = db.width /\ da.origin = db.origin
       [] da.k = "CentrallyBin" -> da.centers = db.centers
       [] da.k = "IrregularlyBin" -> da.edges = db.edges
       [] da.k = "Stack" -> da.thresholds = db.thresholds
       [] da.k \in {"Label", "UntypedLabel"} -> DOMAIN da.pairs = DOMAIN db.pairs
       [] da.k \in {"Index", "Branch"} -> Len(da.vals) = Len(db.vals)
       [] OTHER -> TRUE

(* an empty sparse container whose declared child has a named quantity       *)
RECURSIVE EmptySparseNamed(_, _)
EmptySparseNamed(c, d) ==
  CASE d.k \in LeafKinds -> FALSE
    [] d.k = "Bin" -> \/ \E i \in DOMAIN c.vals : EmptySparseNamed(c.vals[i], d.value)
                      \/ EmptySparseNamed(c.under, d.under) \/ EmptySparseNamed(c.over, d.over) \/ EmptySparseNamed(c.nan, d.nan)
    [] d.k = "SparselyBin" -> \/ (DOMAIN c.bins = {} /\ HasQ(d.value) /\ d.value.nm # "")
                              \/ \E key \in DOMAIN c.bins : EmptySparseNamed(c.bins[key], d.value)
                              \/ EmptySparseNamed(c.nan, d.nan)
    [] d.k = "Categorize" -> \/ (DOMAIN c.bins = {} /\ HasQ(d.value) /\ d.value.nm # "")
                             \/ \E key \in DOMAIN c.bins : EmptySparseNamed(c.bins[key], d.value)
    [] d.k \in SeqBinKinds -> \/ \E i \in DOMAIN c.bins : EmptySparseNamed(c.bins[i], d.value)
                              \/ EmptySparseNamed(c.nan, d.nan)
    [] d.k = "Fraction" -> EmptySparseNamed(c.num, d.value) \/ EmptySparseNamed(c.den, d.value)
    [] d.k = "Select" -> EmptySparseNamed(c.cut, d.cut)
    [] d.k \in {"Label", "UntypedLabel"} -> \E key \in DOMAIN d.pairs : EmptySparseNamed(c.pairs[key], d.pairs[key])
    [] d.k \in {"Index", "Branch"} -> \E i \in DOMAIN d.vals : EmptySparseNamed(c.vals[i], d.vals[i])

-----------------------------------------------------------------------------
(* Merge(a, b): a + b                                                       *)
MergeKeyed(A, B, M(_, _)) ==
  [key \in DOMAIN A \cup DOMAIN B |->
     IF key \in DOMAIN A /\ key \in DOMAIN B THEN M(A[key], B[key])
     ELSE IF key \in DOMAIN A THEN A[key] ELSE B[key]]

RECURSIVE Merge(_, _)
Merge(a, b) ==
  LET e == Add(a.e, b.e) IN
  CASE a.k = "Count" -> [a EXCEPT !.e = e]
    [] a.k = "Sum" -> [a EXCEPT !.e = e, !.s = Add(@, b.s)]
    [] a.k \in {"Average", "Deviate"} ->
         LET mm == IF a.e = Q(0) THEN b.mean ELSE IF b.e = Q(0) THEN a.mean
                   ELSE Div(Add(Mul(a.e, a.mean), Mul(b.e, b.mean)), e)
         IN IF a.k = "Average" THEN [a EXCEPT !.e = e, !.mean = mm]
            ELSE [a EXCEPT !.e = e, !.mean = mm,
                    !.vte = IF a.e = Q(0) THEN b.vte ELSE IF b.e = Q(0) THEN a.vte
                            ELSE Add(Add(Add(Add(a.vte, b.vte),
                                             Add(Mul(a.e, Mul(a.mean, a.mean)), Mul(b.e, Mul(b.mean, b.mean)))),
                                         Neg(Mul(Mul(Q(2), mm), Add(Mul(a.e, a.mean), Mul(b.e, b.mean))))),
                                     Mul(Mul(mm, mm), e))]
    [] a.k = "Minimize" -> [a EXCEPT !.e = e, !.min = MinPlus(@, b.min)]
    [] a.k = "Maximize" -> [a EXCEPT !.e = e, !.max = MaxPlus(@, b.max)]
    [] a.k = "Bag" -> [a EXCEPT !.e = e, !.vals = MergeKeyed(@, b.vals, Add)]
    [] a.k = "Bin" ->
         [a EXCEPT !.e = e, !.vals = [i \in DOMAIN @ |-> Merge(@[i], b.vals[i])],
                   !.under = Merge(@, b.under), !.over = Merge(@, b.over), !.nan = Merge(@, b.nan)]
    [] a.k = "SparselyBin" ->
         [a EXCEPT !.e = e, !.bins = MergeKeyed(@, b.bins, Merge), !.nan = Merge(@, b.nan)]
    [] a.k = "Categorize" -> [a EXCEPT !.e = e, !.bins = MergeKeyed(@, b.bins, Merge)]
    [] a.k \in SeqBinKinds ->
         [a EXCEPT !.e = e, !.bins = [i \in DOMAIN @ |-> Merge(@[i], b.bins[i])], !.nan = Merge(@, b.nan)]
    [] a.k = "Fraction" -> [a EXCEPT !.e = e, !.num = Merge(@, b.num), !.den = Merge(@, b.den)]
    [] a.k = "Select" -> [a EXCEPT !.e = e, !.cut = Merge(@, b.cut)]
    [] a.k \in {"Label", "UntypedLabel"} ->
         [a EXCEPT !.e = e, !.pairs = [key \in DOMAIN @ |-> Merge(@[key], b.pairs[key])]]
    [] a.k \in {"Index", "Branch"} ->
         [a EXCEPT !.e = e, !.vals = [i \in DOMAIN @ |-> Merge(@[i], b.vals[i])]]

-----------------------------------------------------------------------------
(* Compat(da, ca, db, cb): may a + b be formed?  Structural compatibility   *)
(* at every depth: kind, low/high/num, binWidth/origin, centres,            *)
(* thresholds, Bag range, label sets, collection sizes, child kinds - for   *)
(* sparse containers both the children that exist and the declared child    *)
(* (the template of a live container, the declared content type of a        *)
(* reloaded one).  Descriptors carry the templates; reloaded containers     *)
(* have descriptors reconstructed from the document.                        *)
(* An OPAQUE child descriptor [k, opaque |-> TRUE, nm |-> ""] stands for "a child of kind k whose structure is *)
(* not known": all a container reloaded from JSON can say about the declared child of a sparse container that   *)
(* holds no bin (the document carries only the type name).                                                     *)
IsOpaque(d) == "opaque" \in DOMAIN d
Opaque(kind) == [k |-> kind, opaque |-> TRUE, nm |-> "", q |-> "?", fid |-> "", form |-> "none", tr |-> "id"]

RECURSIVE CompatD(_, _)
CompatD(da, db) ==
  /\ da.k = db.k
  /\ IF IsOpaque(da) \/ IsOpaque(db) THEN TRUE ELSE
     CASE da.k \in {"Count", "Sum", "Average", "Deviate", "Minimize", "Maximize"} -> TRUE
       [] da.k = "Bag" -> da.range = db.range
       [] da.k = "Bin" -> /\ da.num = db.num /\ da.lo = db.lo /\ da.hi = db.hi
                          /\ CompatD(da.value, db.value) /\ CompatD(da.under, db.under)
                          /\ CompatD(da.over, db.over) /\ CompatD(da.nan, db.nan)
       [] da.k = "SparselyBin" -> /\ da.width = db.width /\ da.origin = db.origin
                                  /\ CompatD(da.value, db.value) /\ CompatD(da.nan, db.nan)
       [] da.k = "CentrallyBin" -> /\ da.centers = db.centers
                                   /\ CompatD(da.value, db.value) /\ CompatD(da.nan, db.nan)
       [] da.k = "IrregularlyBin" -> /\ da.edges = db.edges
                                     /\ CompatD(da.value, db.value) /\ CompatD(da.nan, db.nan)
       [] da.k = "Stack" -> /\ da.thresholds = db.thresholds
                            /\ CompatD(da.value, db.value) /\ CompatD(da.nan, db.nan)
       [] da.k = "Categorize" -> CompatD(da.value, db.value)
       [] da.k = "Fraction" -> CompatD(da.value, db.value)
       [] da.k = "Select" -> CompatD(da.cut, db.cut)
       [] da.k \in {"Label", "UntypedLabel"} ->
            /\ DOMAIN da.pairs = DOMAIN db.pairs
            /\ \A key \in DOMAIN da.pairs : CompatD(da.pairs[key], db.pairs[key])
       [] da.k \in {"Index", "Branch"} ->
            /\ Len(da.vals) = Len(db.vals)
            /\ \A i \in DOMAIN da.vals : CompatD(da.vals[i], db.vals[i])

(* ForgetS(d, S): the descriptor a JSON round trip preserves, given the set S of contents found at this    *)
(* position: everything that the document states (kinds, parameters, names), and below a sparse container *)
(* only what some existing bin shows - where a sparse container is empty its child becomes opaque.        *)
RECURSIVE ForgetS(_, _)
ForgetS(d, S) ==
  CASE d.k \in LeafKinds -> d
    [] d.k = "Bin" ->
         [d EXCEPT !.value = ForgetS(@, UNION {{c.vals[i] : i \in DOMAIN c.vals} : c \in S}),
                   !.under = ForgetS(@, {c.under : c \in S}), !.over = ForgetS(@, {c.over : c \in S}),
                   !.nan = ForgetS(@, {c.nan : c \in S})]
    [] d.k \in {"SparselyBin", "Categorize"} ->
         LET kids == UNION {{c.bins[key] : key \in DOMAIN c.bins} : c \in S}
             v == IF \E c \in S : DOMAIN c.bins = {} THEN Opaque(d.value.k) ELSE ForgetS(d.value, kids)
         IN IF d.k = "Categorize" THEN [d EXCEPT !.value = v]
            ELSE [d EXCEPT !.value = v, !.nan = ForgetS(@, {c.nan : c \in S})]
    [] d.k \in SeqBinKinds ->
         [d EXCEPT !.value = ForgetS(@, UNION {{c.bins[i] : i \in DOMAIN c.bins} : c \in S}),
                   !.nan = ForgetS(@, {c.nan : c \in S})]
    [] d.k = "Fraction" -> [d EXCEPT !.value = ForgetS(@, {c.num : c \in S} \cup {c.den : c \in S})]
    [] d.k = "Select" -> [d EXCEPT !.cut = ForgetS(@, {c.cut : c \in S})]
    [] d.k \in {"Label", "UntypedLabel"} ->
         [d EXCEPT !.pairs = [key \in DOMAIN @ |-> ForgetS(@[key], {c.pairs[key] : c \in S})]]
    [] d.k \in {"Index", "Branch"} ->
         [d EXCEPT !.vals = [i \in DOMAIN @ |-> ForgetS(@[i], {c.vals[i] : c \in S})]]
Forget(d, c) == ForgetS(d, {c})

-----------------------------------------------------------------------------
(* Conversions beyond the 17 listed properties (the specification keeps growing with the library's surface):   *)
(* histogram() reduces the sub-aggregators of a Bin / SparselyBin to their entry counts; Stack.build stacks    *)
(* cumulative sums of compatible aggregators; Fraction.build pairs a numerator with a denominator.             *)
CountOf(c) == [k |-> "Count", e |-> c.e]
Histo(c) ==
  CASE c.k = "Bin" -> [c EXCEPT !.vals = [i \in DOMAIN @ |-> CountOf(@[i])]]
    [] c.k = "SparselyBin" -> [c EXCEPT !.bins = [key \in DOMAIN @ |-> CountOf(@[key])], !.ctype = "Count"]
HistoD(d) == [d EXCEPT !.value = [k |-> "Count", tr |-> "id"]]

RECURSIVE MergeFrom(_, _)
MergeFrom(cs, i) == IF i = Len(cs) THEN cs[i] ELSE Merge(cs[i], MergeFrom(cs, i + 1))   \* cs[i] + (cs[i+1] + ...) 
RECURSIVE SumEnt(_)
SumEnt(cs) == IF cs = <<>> THEN Q(0) ELSE Add(Head(cs).e, SumEnt(Tail(cs)))
StackBuilt(cs) ==
  [k |-> "Stack", e |-> SumEnt(cs), ths |-> [i \in DOMAIN cs |-> NaN],
   bins |-> [i \in DOMAIN cs |-> MergeFrom(cs, i)], nan |-> [k |-> "Count", e |-> Q(0)], nm |-> ""]
FractionBuilt(cn, cd) == [k |-> "Fraction", e |-> cd.e, num |-> cn, den |-> cd, nm |-> ""]

-----------------------------------------------------------------------------
(* Scale(c, d, f): c * f                                                    *)
RECURSIVE ScaleP(_, _)
ScaleP(c, f) ==   \* f > 0
  CASE c.k = "Count" -> [c EXCEPT !.e = Mul(f, @)]
    [] c.k = "Sum" -> [c EXCEPT !.e = Mul(f, @), !.s = Mul(f, @)]
    [] c.k \in {"Average", "Minimize", "Maximize"} -> [c EXCEPT !.e = Mul(f, @)]
    [] c.k = "Deviate" -> [c EXCEPT !.e = Mul(f, @), !.vte = Mul(f, @)]
    [] c.k = "Bag" -> [c EXCEPT !.e = Mul(f, @), !.vals = [key \in DOMAIN @ |-> Mul(f, @[key])]]
    [] c.k = "Bin" ->
         [c EXCEPT !.e = Mul(f, @), !.vals = [i \in DOMAIN @ |-> ScaleP(@[i], f)],
                   !.under = ScaleP(@, f), !.over = ScaleP(@, f), !.nan = ScaleP(@, f)]
    [] c.k = "SparselyBin" ->
         [c EXCEPT !.e = Mul(f, @), !.bins = [key \in DOMAIN @ |-> ScaleP(@[key], f)], !.nan = ScaleP(@, f)]
    [] c.k = "Categorize" -> [c EXCEPT !.e = Mul(f, @), !.bins = [key \in DOMAIN @ |-> ScaleP(@[key], f)]]
    [] c.k \in SeqBinKinds ->
         [c EXCEPT !.e = Mul(f, @), !.bins = [i \in DOMAIN @ |-> ScaleP(@[i], f)], !.nan = ScaleP(@, f)]
    [] c.k = "Fraction" -> [c EXCEPT !.e = Mul(f, @), !.num = ScaleP(@, f), !.den = ScaleP(@, f)]
    [] c.k = "Select" -> [c EXCEPT !.e = Mul(f, @), !.cut = ScaleP(@, f)]
    [] c.k \in {"Label", "UntypedLabel"} ->
         [c EXCEPT !.e = Mul(f, @), !.pairs = [key \in DOMAIN @ |-> ScaleP(@[key], f)]]
    [] c.k \in {"Index", "Branch"} ->
         [c EXCEPT !.e = Mul(f, @), !.vals = [i \in DOMAIN @ |-> ScaleP(@[i], f)]]

Scale(c, d, f) == IF IsNaN(f) \/ ~Gt(f, Q(0)) THEN Zero(d) ELSE ScaleP(c, f)

(* a Count with a non-identity transform anywhere makes * raise             *)
RECURSIVE HasSqCount(_)
HasSqCount(d) ==
  CASE d.k = "Count" -> d.tr # "id"
    [] d.k \in {"Sum", "Average", "Deviate", "Minimize", "Maximize", "Bag"} -> FALSE
    [] d.k = "Bin" -> HasSqCount(d.value) \/ HasSqCount(d.under) \/ HasSqCount(d.over) \/ HasSqCount(d.nan)
    [] d.k \in {"SparselyBin", "CentrallyBin", "IrregularlyBin", "Stack"} -> HasSqCount(d.value) \/ HasSqCount(d.nan)
    [] d.k \in {"Categorize", "Fraction"} -> HasSqCount(d.value)
    [] d.k = "Select" -> HasSqCount(d.cut)
    [] d.k \in {"Label", "UntypedLabel"} -> \E key \in DOMAIN d.pairs : HasSqCount(d.pairs[key])
    [] d.k \in {"Index", "Branch"} -> \E i \in DOMAIN d.vals : HasSqCount(d.vals[i])

-----------------------------------------------------------------------------
(* Bookkeeping invariants (C05).  Relations between a parent's entries and  *)
(* its children skip children that are a Count with a non-identity          *)
(* transform: their `entries` is the sum of transformed weights, not a      *)
(* weight total.                                                            *)
RECURSIVE SumSeq(_)
SumSeq(s) == IF s = <<>> THEN Q(0) ELSE Add(Head(s), SumSeq(Tail(s)))
RECURSIVE SumEntFn(_, _)
SumEntFn(f, S) == IF S = {} THEN Q(0)
                  ELSE LET k == CHOOSE k \in S : TRUE IN Add(f[k].e, SumEntFn(f, S \ {k}))
RECURSIVE SumValFn(_, _)
SumValFn(f, S) == IF S = {} THEN Q(0)
                  ELSE LET k == CHOOSE k \in S : TRUE IN Add(f[k], SumValFn(f, S \ {k}))

Plain(d) == ~(d.k = "Count" /\ d.tr # "id")     \* child's entries is a weight total

RECURSIVE WF(_, _)
WF(c, d) ==
  /\ Ge(c.e, Q(0))
  /\ CASE c.k \in {"Count", "Sum", "Average", "Deviate", "Minimize", "Maximize"} -> TRUE
       [] c.k = "Bag" -> SumValFn(c.vals, DOMAIN c.vals) = c.e
       [] c.k = "Bin" ->
            /\ (Plain(d.value) /\ Plain(d.under) /\ Plain(d.over) /\ Plain(d.nan)) =>
                  Add(Add(Add(SumSeq([i \in DOMAIN c.vals |-> c.vals[i].e]), c.under.e), c.over.e), c.nan.e) = c.e
            /\ \A i \in DOMAIN c.vals : WF(c.vals[i], d.value)
            /\ WF(c.under, d.under) /\ WF(c.over, d.over) /\ WF(c.nan, d.nan)
       [] c.k = "SparselyBin" ->
            /\ (Plain(d.value) /\ Plain(d.nan)) => Add(SumEntFn(c.bins, DOMAIN c.bins), c.nan.e) = c.e
            /\ \A key \in DOMAIN c.bins : WF(c.bins[key], d.value)
            /\ WF(c.nan, d.nan)
       [] c.k = "Categorize" ->
            /\ Plain(d.value) => SumEntFn(c.bins, DOMAIN c.bins) = c.e
            /\ \A key \in DOMAIN c.bins : WF(c.bins[key], d.value)
       [] c.k \in {"CentrallyBin", "IrregularlyBin"} ->
            /\ (Plain(d.value) /\ Plain(d.nan)) =>
                  Add(SumSeq([i \in DOMAIN c.bins |-> c.bins[i].e]), c.nan.e) = c.e
            /\ \A i \in DOMAIN c.bins : WF(c.bins[i], d.value)
            /\ WF(c.nan, d.nan)
       [] c.k = "Stack" ->
            /\ (Plain(d.value) /\ Plain(d.nan)) => Add(c.bins[1].e, c.nan.e) = c.e
            (* (levels decrease when the cuts increase; the constructor takes the thresholds in any order) *)
            /\ (Plain(d.value) /\ \A i \in 1..(Len(c.ths) - 1) : Lt(c.ths[i], c.ths[i + 1]))
                  => \A i \in 1..(Len(c.bins) - 1) : Ge(c.bins[i].e, c.bins[i + 1].e)
            /\ \A i \in DOMAIN c.bins : WF(c.bins[i], d.value)
            /\ WF(c.nan, d.nan)
       [] c.k = "Fraction" -> /\ Plain(d.value) => c.den.e = c.e
                              /\ WF(c.num, d.value) /\ WF(c.den, d.value)
       [] c.k = "Select" -> WF(c.cut, d.cut)
       [] c.k \in {"Label", "UntypedLabel"} ->
            \A key \in DOMAIN c.pairs : /\ Plain(d.pairs[key]) => c.pairs[key].e = c.e
                                        /\ WF(c.pairs[key], d.pairs[key])
       [] c.k \in {"Index", "Branch"} ->
            \A i \in DOMAIN c.vals : /\ Plain(d.vals[i]) => c.vals[i].e = c.e
                                     /\ WF(c.vals[i], d.vals[i])

-----------------------------------------------------------------------------
(* Strip(c): content with zero-entries sparse / category bins removed (C03  *)
(* compares vectorised and row-wise fills modulo these)                     *)
RECURSIVE Strip(_)
Strip(c) ==
  CASE c.k \in LeafKinds -> c
    [] c.k = "Bin" -> [c EXCEPT !.vals = [i \in DOMAIN @ |-> Strip(@[i])],
                                !.under = Strip(@), !.over = Strip(@), !.nan = Strip(@)]
    [] c.k = "SparselyBin" ->
         [c EXCEPT !.bins = [key \in {k2 \in DOMAIN @ : @[k2].e # Q(0)} |-> Strip(@[key])], !.nan = Strip(@)]
    [] c.k = "Categorize" ->
         [c EXCEPT !.bins = [key \in {k2 \in DOMAIN @ : @[k2].e # Q(0)} |-> Strip(@[key])]]
    [] c.k \in SeqBinKinds -> [c EXCEPT !.bins = [i \in DOMAIN @ |-> Strip(@[i])], !.nan = Strip(@)]
    [] c.k = "Fraction" -> [c EXCEPT !.num = Strip(@), !.den = Strip(@)]
    [] c.k = "Select" -> [c EXCEPT !.cut = Strip(@)]
    [] c.k \in {"Label", "UntypedLabel"} -> [c EXCEPT !.pairs = [key \in DOMAIN @ |-> Strip(@[key])]]
    [] c.k \in {"Index", "Branch"} -> [c EXCEPT !.vals = [i \in DOMAIN @ |-> Strip(@[i])]]

(* bins that a vectorised fill may leave behind with zero weight must be    *)
(* genuinely empty children                                                 *)
RECURSIVE ZeroBinsEmpty(_, _)
ZeroBinsEmpty(c, d) ==
  CASE c.k \in LeafKinds -> TRUE
    [] c.k = "Bin" -> /\ \A i \in DOMAIN c.vals : ZeroBinsEmpty(c.vals[i], d.value)
                      /\ ZeroBinsEmpty(c.under, d.under) /\ ZeroBinsEmpty(c.over, d.over) /\ ZeroBinsEmpty(c.nan, d.nan)
    [] c.k = "SparselyBin" ->
         /\ \A key \in DOMAIN c.bins : IF c.bins[key].e = Q(0) /\ Plain(d.value) THEN Strip(c.bins[key]) = Zero(d.value)
                                       ELSE ZeroBinsEmpty(c.bins[key], d.value)
         /\ ZeroBinsEmpty(c.nan, d.nan)
    [] c.k = "Categorize" ->
         \A key \in DOMAIN c.bins : IF c.bins[key].e = Q(0) /\ Plain(d.value) THEN Strip(c.bins[key]) = Zero(d.value)
                                    ELSE ZeroBinsEmpty(c.bins[key], d.value)
    [] c.k \in SeqBinKinds -> /\ \A i \in DOMAIN c.bins : ZeroBinsEmpty(c.bins[i], d.value)
                              /\ ZeroBinsEmpty(c.nan, d.nan)
    [] c.k = "Fraction" -> ZeroBinsEmpty(c.num, d.value) /\ ZeroBinsEmpty(c.den, d.value)
    [] c.k = "Select" -> ZeroBinsEmpty(c.cut, d.cut)
    [] c.k \in {"Label", "UntypedLabel"} -> \A key \in DOMAIN c.pairs : ZeroBinsEmpty(c.pairs[key], d.pairs[key])
    [] c.k \in {"Index", "Branch"} -> \A i \in DOMAIN c.vals : ZeroBinsEmpty(c.vals[i], d.vals[i])
=============================================================================
