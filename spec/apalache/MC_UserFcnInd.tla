--------------------------- MODULE MC_UserFcnInd ---------------------------
(***************************************************************************)
(* Unbounded safety of the wrapper state machine (C17, design level):      *)
(* Apalache discharges that IndInv is an inductive invariant of            *)
(* HgUserFcn!Spec with NO bound on the number of operations                *)
(*   apalache-mc check --init=IndInit --inv=IndInv --next=NextU --length=1 *)
(*   apalache-mc check --init=Init    --inv=IndInv --length=0              *)
(* whereas TLC (MCUserFcn) explores the same machine up to MaxOps steps.   *)
(***************************************************************************)
EXTENDS Integers, Sequences, FiniteSets, Apalache

NArgs == 4
\* @type: Int -> Seq(Int);
F == [a \in 1..4 |-> <<a * a - 7>>]
MaxOps == 0      \* not used by NextU

VARIABLES
  \* @type: { base: Str, wrapped: Bool, cached: Bool, name: Str, explicit: Bool, memo: Int };
  w,
  \* @type: Set(Str);
  applied,
  \* @type: Int;
  n,
  \* @type: Seq(Int);
  lastret,
  \* @type: Int;
  lastarg

INSTANCE HgUserFcn

(* the step relation without the bound n < MaxOps *)
NextU ==
  \/ Step(Serializable(w), {"S"})
  \/ Step(Cached(w), {"C"})
  \/ \E nm \in Names : CanName(w) /\ Step(Named(nm, w), {nm})
  \/ \E a \in 1..NArgs : /\ w.wrapped
                         /\ w' = AfterCall(w, a) /\ lastret' = CallRet(w, a) /\ lastarg' = a
                         /\ n' = n + 1 /\ UNCHANGED applied

TypeOK ==
  /\ w.base \in {"lam", "def", "str"}
  /\ w.name \in {"", "auto:def", "auto:str", "n1", "n2"}
  /\ w.memo \in 0..NArgs
  /\ applied \subseteq {"S", "C", "n1", "n2"}
  /\ n >= 0
  /\ lastarg \in 0..NArgs

IndInv == TypeOK /\ OrderIndependent /\ OneName /\ Transparent

(* any state satisfying the invariant (Gen bounds the sizes of the data structures, not the history) *)
IndInit ==
  /\ w = Gen(1) /\ applied = Gen(4) /\ n = Gen(1) /\ lastret = Gen(1) /\ lastarg = Gen(1)
  /\ IndInv

(* sanity of the set-up: an invariant that is NOT inductive must be refuted (expected: Apalache reports an error) *)
NotInductive == TypeOK /\ OrderIndependent /\ Transparent      \* OneName left out of the hypothesis ...
NotInductiveInit == /\ w = Gen(1) /\ applied = Gen(4) /\ n = Gen(1) /\ lastret = Gen(1) /\ lastarg = Gen(1)
                    /\ NotInductive
WrongInv == ~w.cached                                           \* ... and a plainly false one
=============================================================================
