------------------------------- MODULE HgViews -------------------------------
(***************************************************************************)
(* Derived views (C13): bin edges, centres, entries, num_bins, bin_width    *)
(* for the full range and for sub-range queries, bin_entries(xvalues),      *)
(* Categorize labels / entries / mpv, and the 2-D grid and x / y           *)
(* projections of two-dimensional histograms.                              *)
(*                                                                         *)
(* A binning node defines a PARTITION: a sequence of edges E[1..n+1]; bin k *)
(* is the half-open interval [E[k], E[k+1]).  It is the partition Route /   *)
(* Fill use (HgTree).  A query (qlo, qhi), each bound optional, selects the *)
(* bins that overlap the open interval (qlo, qhi):                          *)
(*     Sel == {k : E[k+1] > qlo /\ E[k] < qhi}                               *)
(* and every accessor must describe exactly these bins.                     *)
(***************************************************************************)
EXTENDS HgTree

IntRange == -40..40       \* sparse bin indexes that the view model can enumerate

SparseIdx(c) == {i \in IntRange : ToString(i) \in DOMAIN c.bins}
MinOf(S) == CHOOSE m \in S : \A n \in S : m <= n
MaxOf(S) == CHOOSE m \in S : \A n \in S : n <= m
ViewableSparse(c) == /\ SparseIdx(c) # {}
                     /\ \A key \in DOMAIN c.bins : \E i \in IntRange : ToString(i) = key

(* the partition                                                            *)
ViewEdges(c) ==
  CASE c.k = "Bin" ->
         LET n == Len(c.vals) w == Div(Sub(c.hi, c.lo), Q(n))
         IN [i \in 1..(n + 1) |-> Add(c.lo, Mul(Q(i - 1), w))]
    [] c.k = "SparselyBin" ->
         LET S == SparseIdx(c) lo == MinOf(S) hi == MaxOf(S)
         IN [i \in 1..(hi - lo + 2) |-> Add(c.origin, Mul(Q(lo + i - 1), c.width))]
    [] c.k = "CentrallyBin" ->
         <<NInf>> \o [i \in 1..(Len(c.centers) - 1) |-> Mid(c.centers, i)] \o <<PInf>>
    [] c.k = "IrregularlyBin" -> c.ths \o <<PInf>>

(* entries per bin of the partition                                         *)
ViewEntries(c) ==
  CASE c.k = "Bin" -> [i \in DOMAIN c.vals |-> c.vals[i].e]
    [] c.k = "SparselyBin" ->
         LET S == SparseIdx(c) lo == MinOf(S) hi == MaxOf(S)
         IN [i \in 1..(hi - lo + 1) |->
               LET key == ToString(lo + i - 1) IN IF key \in DOMAIN c.bins THEN c.bins[key].e ELSE Q(0)]
    [] c.k \in {"CentrallyBin", "IrregularlyBin"} -> [i \in DOMAIN c.bins |-> c.bins[i].e]

ViewCenters(c, E) ==
  IF c.k = "CentrallyBin" THEN c.centers
  ELSE [k \in 1..(Len(E) - 1) |-> Div(Add(E[k], E[k + 1]), Q(2))]

Sel(E, hasLo, qlo, hasHi, qhi) ==
  {k \in 1..(Len(E) - 1) : (~hasLo \/ Gt(E[k + 1], qlo)) /\ (~hasHi \/ Lt(E[k], qhi))}

SubSeqOf(s, S) == IF S = {} THEN <<>> ELSE [i \in 1..(MaxOf(S) - MinOf(S) + 1) |-> s[MinOf(S) + i - 1]]

(* entries of the bin a value is routed to (0 when it falls outside the bins) *)
EntryAt(c, x) ==
  IF IsNaN(x) THEN Q(0) ELSE
  CASE c.k = "Bin" -> IF Lt(x, c.lo) \/ Ge(x, c.hi) THEN Q(0) ELSE c.vals[BinIndex(c, x) + 1].e
    [] c.k = "SparselyBin" -> LET key == SparseKey(c, x) IN IF key \in DOMAIN c.bins THEN c.bins[key].e ELSE Q(0)
    [] c.k = "CentrallyBin" -> c.bins[CentralIndex(c.centers, x)].e
    [] c.k = "IrregularlyBin" -> LET i == IrrIndex(c.ths, x) IN IF i = 0 THEN Q(0) ELSE c.bins[i].e

(* SparselyBin: the grid of bins is unbounded; a bound of the query that is given selects grid bins
   (also beyond the filled range, with zero entries), a bound that is absent stops at the filled range *)
SparseSel(c, hasLo, qlo, hasHi, qhi) ==
  LET F == SparseIdx(c)
      L(i) == Add(c.origin, Mul(Q(i), c.width))
  IN {i \in IntRange : /\ (IF hasLo THEN Gt(L(i + 1), qlo) ELSE i >= MinOf(F))
                       /\ (IF hasHi THEN Lt(L(i), qhi) ELSE i <= MaxOf(F))}
SparseExpect(c, hasLo, qlo, hasHi, qhi, xs) ==
  LET I == SparseSel(c, hasLo, qlo, hasHi, qhi)
      L(i) == Add(c.origin, Mul(Q(i), c.width))
      n == Cardinality(I)
  IN [nb |-> n,
      ent |-> IF I = {} THEN <<>> ELSE [k \in 1..n |-> LET key == ToString(MinOf(I) + k - 1) IN
                                                       IF key \in DOMAIN c.bins THEN c.bins[key].e ELSE Q(0)],
      edges |-> IF I = {} THEN <<>> ELSE [k \in 1..(n + 1) |-> L(MinOf(I) + k - 1)],
      centers |-> IF I = {} THEN <<>> ELSE [k \in 1..n |-> Div(Add(L(MinOf(I) + k - 1), L(MinOf(I) + k)), Q(2))],
      xent |-> [i \in DOMAIN xs |-> EntryAt(c, xs[i])]]

(* what the accessors must return for a query                               *)
ViewExpect(c, hasLo, qlo, hasHi, qhi, xs) ==
  IF c.k = "SparselyBin" THEN SparseExpect(c, hasLo, qlo, hasHi, qhi, xs) ELSE
  LET E == ViewEdges(c)
      S == Sel(E, hasLo, qlo, hasHi, qhi)
  IN [nb |-> Cardinality(S),
      ent |-> SubSeqOf(ViewEntries(c), S),
      edges |-> IF S = {} THEN <<>> ELSE [i \in 1..(Cardinality(S) + 1) |-> E[MinOf(S) + i - 1]],
      centers |-> SubSeqOf(ViewCenters(c, E), S),
      xent |-> [i \in DOMAIN xs |-> EntryAt(c, xs[i])]]

(* mutual consistency stated directly (implied by ViewExpect, kept as the   *)
(* property's own words): one more edge than bins, one centre and one entry *)
(* per bin, centres between their edges                                     *)
Consistent(r) ==
  /\ Len(r.edges) = r.nb + 1 /\ Len(r.centers) = r.nb /\ Len(r.ent) = r.nb
  /\ \A k \in 1..r.nb : Le(r.edges[k], r.centers[k]) /\ Le(r.centers[k], r.edges[k + 1])

(* does the query overlap the binned domain?  (otherwise nothing is claimed, not even that the call returns) *)
ViewDefined(c, hasLo, qlo, hasHi, qhi) ==
  IF c.k = "SparselyBin" /\ ~ViewableSparse(c) THEN FALSE
  ELSE ViewExpect(c, hasLo, qlo, hasHi, qhi, <<>>).nb > 0

ViewOK(c, hasLo, qlo, hasHi, qhi, xs, r) ==
  (* an unfilled SparselyBin has no partition yet, and sparse indexes beyond IntRange are outside the view model *)
  IF c.k = "SparselyBin" /\ ~ViewableSparse(c) THEN TRUE ELSE
  LET X == ViewExpect(c, hasLo, qlo, hasHi, qhi, xs)
  IN /\ r.xent = X.xent
     (* the claim is about queries that overlap the binned domain *)
     /\ (X.nb > 0 => /\ r.nb = X.nb /\ r.ent = X.ent /\ r.edges = X.edges /\ r.centers = X.centers
                      /\ Consistent(r))
     /\ (c.k = "Bin" => r.width = <<Div(Sub(c.hi, c.lo), Q(Len(c.vals)))>>)
     /\ (c.k = "SparselyBin" => r.width = <<c.width>>)

-----------------------------------------------------------------------------
(* Categorize: labels / entries / most probable value                       *)
CatViewOK(c, r) ==
  /\ Len(r.labels) = Cardinality(DOMAIN c.bins) /\ Len(r.ent) = Len(r.labels)
  /\ {r.labels[i] : i \in DOMAIN r.labels} = DOMAIN c.bins
  /\ \A i \in DOMAIN r.labels : r.ent[i] = c.bins[r.labels[i]].e
  /\ \A i \in DOMAIN r.probe : r.pent[i] = (IF r.probe[i] \in DOMAIN c.bins THEN c.bins[r.probe[i]].e ELSE Q(0))
  /\ (DOMAIN c.bins # {} =>
        /\ r.mpv \in DOMAIN c.bins
        /\ \A key \in DOMAIN c.bins : Ge(c.bins[r.mpv].e, c.bins[key].e))

-----------------------------------------------------------------------------
(* two-dimensional histograms: grid[j][i] is the weight of x-bin i, y-bin j; *)
(* the projections integrate one axis out; only in-range weights appear      *)
RECURSIVE SumQ(_)
SumQ(s) == IF s = <<>> THEN Q(0) ELSE Add(Head(s), SumQ(Tail(s)))

Grid2DOK(c, r) ==
  CASE c.k = "Bin" ->
         LET nx == Len(c.vals) ny == Len(c.vals[1].vals) IN
         /\ r.grid = [j \in 1..ny |-> [i \in 1..nx |-> c.vals[i].vals[j].e]]
         /\ r.projx = [i \in 1..nx |-> SumQ([j \in 1..ny |-> c.vals[i].vals[j].e])]
         /\ r.projy = [j \in 1..ny |-> SumQ([i \in 1..nx |-> c.vals[i].vals[j].e])]
         /\ r.xr = ViewEdges(c) /\ r.yr = ViewEdges(c.vals[1])
    [] c.k = "SparselyBin" ->
         LET XS == SparseIdx(c)
             YS == UNION {SparseIdx(c.bins[ToString(i)]) : i \in XS}
             xlo == MinOf(XS) xhi == MaxOf(XS) ylo == MinOf(YS) yhi == MaxOf(YS)
             W(i, j) == LET kx == ToString(i) ky == ToString(j) IN
                        IF kx \in DOMAIN c.bins /\ ky \in DOMAIN c.bins[kx].bins THEN c.bins[kx].bins[ky].e ELSE Q(0)
         IN IF XS = {} \/ YS = {} \/ ~ViewableSparse(c) \/ \E i \in XS : ~(SparseIdx(c.bins[ToString(i)]) = {} \/ ViewableSparse(c.bins[ToString(i)]))
            THEN TRUE ELSE
            /\ r.grid = [j \in 1..(yhi - ylo + 1) |-> [i \in 1..(xhi - xlo + 1) |-> W(xlo + i - 1, ylo + j - 1)]]
            /\ DOMAIN r.projxm = {ToString(i) : i \in XS}
            /\ \A i \in XS : r.projxm[ToString(i)] = SumQ([j \in 1..(yhi - ylo + 1) |-> W(i, ylo + j - 1)])
            /\ DOMAIN r.projym = {ToString(j) : j \in YS}
            /\ \A j \in YS : r.projym[ToString(j)] = SumQ([i \in 1..(xhi - xlo + 1) |-> W(xlo + i - 1, j)])

-----------------------------------------------------------------------------
(* Accessors: what the scalar look-up methods return, as functions of the     *)
(* abstract content (beyond the listed properties: the rest of the read-only   *)
(* API).  xs are probe values, ks probe keys / indexes; positions are 0-based *)
(* as in the library.                                                          *)
SortedInts(S) == LET RECURSIVE Srt(_)
                     Srt(T) == IF T = {} THEN <<>> ELSE LET m == MinOf(T) IN <<m>> \o Srt(T \ {m})
                 IN Srt(S)
(* optional values: None is <<>>, a value v is <<v>> (so that answers of either kind compare without a type error) *)
None == <<>>
Some(v) == <<v>>
EntOrNone(f, key) == IF key \in DOMAIN f THEN Some(f[key].e) ELSE None

AccExpect(c, xs, ks) ==
  CASE c.k = "Bin" ->
         LET n == Len(c.vals) E == ViewEdges(c) IN
         [num |-> n, size |-> n,
          binx |-> [i \in DOMAIN xs |-> LET x == xs[i] IN
                      IF IsNaN(x) \/ Lt(x, c.lo) \/ Ge(x, c.hi) THEN -1
                      ELSE LET b == BinIndex(c, x) IN IF b > n - 1 THEN n - 1 ELSE b],
          underx |-> [i \in DOMAIN xs |-> ~IsNaN(xs[i]) /\ Lt(xs[i], c.lo)],
          overx |-> [i \in DOMAIN xs |-> ~IsNaN(xs[i]) /\ Ge(xs[i], c.hi)],
          nanx |-> [i \in DOMAIN xs |-> IsNaN(xs[i])],
          ranges |-> [i \in 1..n |-> <<E[i], E[i + 1]>>]]
    [] c.k = "SparselyBin" ->
         LET S == SparseIdx(c)
             L(i) == Add(c.origin, Mul(Q(i), c.width))
         IN [numFilled |-> Cardinality(DOMAIN c.bins),
             size |-> Cardinality(DOMAIN c.bins),
             num |-> IF S = {} THEN 0 ELSE MaxOf(S) - MinOf(S) + 1,
             minBin |-> IF S = {} THEN None ELSE Some(MinOf(S)),
             maxBin |-> IF S = {} THEN None ELSE Some(MaxOf(S)),
             low |-> IF S = {} THEN None ELSE Some(L(MinOf(S))),
             high |-> IF S = {} THEN None ELSE Some(L(MaxOf(S) + 1)),
             indexes |-> SortedInts(S),
             binx |-> [i \in DOMAIN xs |-> FloorQ(Div(Sub(xs[i], c.origin), c.width))],   \* finite probes only
             nanx |-> [i \in DOMAIN xs |-> IsNaN(xs[i])],
             ranges |-> [i \in DOMAIN ks |-> <<L(ks[i]), L(ks[i] + 1)>>],
             atent |-> [i \in DOMAIN ks |-> EntOrNone(c.bins, ToString(ks[i]))]]
    [] c.k = "CentrallyBin" ->
         LET n == Len(c.centers)
             Nb(i) == <<IF i = 1 THEN None ELSE Some(c.centers[i - 1]), IF i = n THEN None ELSE Some(c.centers[i + 1])>>
             E == ViewEdges(c)
         IN [centers |-> c.centers, nb |-> n,
             indexx |-> [i \in DOMAIN xs |-> CentralIndex(c.centers, xs[i]) - 1],
             centerx |-> [i \in DOMAIN xs |-> c.centers[CentralIndex(c.centers, xs[i])]],
             nanx |-> [i \in DOMAIN xs |-> IsNaN(xs[i])],
             neighbors |-> [i \in 1..n |-> Nb(i)],
             ranges |-> [i \in 1..n |-> <<E[i], E[i + 1]>>]]
    [] c.k \in {"IrregularlyBin", "Stack"} ->
         [thresholds |-> c.ths, nb |-> Len(c.bins), values |-> [i \in DOMAIN c.bins |-> c.bins[i].e]]
    [] c.k = "Select" ->
         [fractionPassing |-> IF c.e = Q(0) THEN None (* ZeroDivisionError *) ELSE Some(Div(c.cut.e, c.e))]
    [] c.k = "Fraction" ->
         [numerator |-> c.num.e, denominator |-> c.den.e]
    [] c.k = "Categorize" ->
         [size |-> Cardinality(DOMAIN c.bins), keys |-> DOMAIN c.bins,
          getent |-> [i \in DOMAIN ks |-> EntOrNone(c.bins, ks[i])],
          values |-> Cardinality(DOMAIN c.bins)]
    [] c.k \in {"Label", "UntypedLabel"} ->
         [size |-> Cardinality(DOMAIN c.pairs), keys |-> DOMAIN c.pairs,
          getent |-> [i \in DOMAIN ks |-> EntOrNone(c.pairs, ks[i])]]
    [] c.k \in {"Index", "Branch"} ->
         [size |-> Len(c.vals),
          ient |-> [i \in 1..Len(c.vals) |-> c.vals[i].e],      \* Branch: the positional attributes i0, i1, ...

          getent |-> [i \in DOMAIN ks |-> IF ks[i] >= 0 /\ ks[i] < Len(c.vals) THEN Some(c.vals[ks[i] + 1].e) ELSE None]]
    [] OTHER -> [none |-> TRUE]

(* the recorded answers r (same field names; key collections as sets) against the expectation, field by field;   *)
(* the set of fields that disagree                                                                                *)
AccBad(c, xs, ks, r) ==
  IF c.k = "SparselyBin" /\ ~(DOMAIN c.bins = {} \/ ViewableSparse(c)) THEN {} ELSE
  LET X == AccExpect(c, xs, ks) IN
  {f \in DOMAIN X \cap DOMAIN r :
     IF f = "keys" THEN {r[f][i] : i \in DOMAIN r[f]} # X[f] \/ Len(r[f]) # Cardinality(X[f]) ELSE r[f] # X[f]}
=============================================================================
