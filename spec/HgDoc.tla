------------------------------- MODULE HgDoc -------------------------------
(***************************************************************************)
(* The JSON wire format as a document model.                               *)
(*                                                                         *)
(* JSON values are modelled structurally and TAGGED (TLC has no            *)
(* reflection, and comparing values of different shapes is an evaluation   *)
(* error, so generic recursion needs a tag):                               *)
(*   [j |-> "obj", v |-> string-keyed function]   [j |-> "arr", v |-> seq]  *)
(*   [j |-> "num", v |-> HgNum pair]   [j |-> "str", v |-> string]          *)
(*   [j |-> "bool", v |-> BOOLEAN]     [j |-> "null", v |-> "null"]         *)
(*   [j |-> "bagvals", v |-> key -> tagged weight]  : a list of {w, v}      *)
(*       records (the `values` of a Bag), which is compared as a map        *)
(*       because its order is a sort the specification need not reproduce.  *)
(* Non-finite numbers appear ONLY as the strings "nan" "inf" "-inf".        *)
(* Tagged values are compared with DocEq (tags first), never with `=`.      *)
(*                                                                         *)
(* ToDoc(c, d) builds the {type, data, version} document with exactly the  *)
(* keys toJson emits.                                                      *)
(***************************************************************************)
EXTENDS HgTree

JNum(p) == [j |-> "num", v |-> p]
JStr(s) == [j |-> "str", v |-> s]
JArr(s) == [j |-> "arr", v |-> s]
JObj(f) == [j |-> "obj", v |-> f]

(* floatToJson: specials become strings                                     *)
JF(p) == IF IsNaN(p) THEN JStr("nan") ELSE IF p = PInf THEN JStr("inf")
         ELSE IF p = NInf THEN JStr("-inf") ELSE JNum(p)

Mk(ps) == [key \in {p[1] : p \in RangeOf(ps)} |-> (CHOOSE p \in RangeOf(ps) : p[1] = key)[2]]
Opt(f, key, nm) == IF nm = "" THEN f ELSE Put(f, key, JStr(nm))      \* maybeAdd
QName(d) == IF HasQ(d) THEN d.nm ELSE ""
SpecVersion == "1.1"

BagVals(c) == IF DOMAIN c.vals = {} THEN JArr(<<>>)
              ELSE [j |-> "bagvals", v |-> [key \in DOMAIN c.vals |-> JF(c.vals[key])]]

(* the name a parent hoists for its children: the template's for sparse     *)
(* containers that have one (d.value), the first child's otherwise          *)
RECURSIVE Frag(_, _, _)
Frag(c, d, sup) ==
  LET own == IF sup \/ ~HasQ(d) THEN "" ELSE c.nm
      E == <<"entries", JF(c.e)>>
  IN
  CASE d.k = "Count" -> JF(c.e)
    [] d.k = "Sum" -> JObj(Opt(Mk(<<E, <<"sum", JF(c.s)>> >>), "name", own))
    [] d.k = "Average" -> JObj(Opt(Mk(<<E, <<"mean", JF(c.mean)>> >>), "name", own))
    [] d.k = "Deviate" ->
         JObj(Opt(Mk(<<E, <<"mean", JF(c.mean)>>,
                        <<"variance", JF(IF c.e = Q(0) THEN c.vte ELSE Div(c.vte, c.e))>> >>), "name", own))
    [] d.k = "Minimize" -> JObj(Opt(Mk(<<E, <<"min", JF(c.min)>> >>), "name", own))
    [] d.k = "Maximize" -> JObj(Opt(Mk(<<E, <<"max", JF(c.max)>> >>), "name", own))
    [] d.k = "Bag" ->
         JObj(Opt(Mk(<<E, <<"range", JStr(c.range)>>, <<"values", BagVals(c)>> >>), "name", own))
    [] d.k = "Bin" ->
         JObj(Opt(Opt(Mk(<<E, <<"low", JF(c.lo)>>, <<"high", JF(c.hi)>>,
              <<"values:type", JStr(d.value.k)>>,
              <<"values", JArr([i \in DOMAIN c.vals |-> Frag(c.vals[i], d.value, TRUE)])>>,
              <<"underflow:type", JStr(d.under.k)>>, <<"underflow", Frag(c.under, d.under, FALSE)>>,
              <<"overflow:type", JStr(d.over.k)>>, <<"overflow", Frag(c.over, d.over, FALSE)>>,
              <<"nanflow:type", JStr(d.nan.k)>>, <<"nanflow", Frag(c.nan, d.nan, FALSE)>> >>),
              "name", own), "values:name", QName(d.value)))
    [] d.k = "SparselyBin" ->
         JObj(Opt(Opt(Mk(<<E, <<"binWidth", JF(c.width)>>, <<"bins:type", JStr(d.value.k)>>,
              <<"bins", JObj([key \in DOMAIN c.bins |-> Frag(c.bins[key], d.value, TRUE)])>>,
              <<"nanflow:type", JStr(d.nan.k)>>, <<"nanflow", Frag(c.nan, d.nan, FALSE)>>,
              <<"origin", JF(c.origin)>> >>), "name", own), "bins:name", QName(d.value)))
    [] d.k = "CentrallyBin" ->
         JObj(Opt(Opt(Mk(<<E, <<"bins:type", JStr(d.value.k)>>,
              <<"bins", JArr([i \in DOMAIN c.bins |->
                    JObj(Mk(<< <<"center", JF(c.centers[i])>>, <<"data", Frag(c.bins[i], d.value, TRUE)>> >>))])>>,
              <<"nanflow:type", JStr(d.nan.k)>>, <<"nanflow", Frag(c.nan, d.nan, FALSE)>> >>),
              "name", own), "bins:name", QName(d.value)))
    [] d.k \in {"IrregularlyBin", "Stack"} ->
         JObj(Opt(Opt(Mk(<<E, <<"bins:type", JStr(d.value.k)>>,
              <<"bins", JArr([i \in DOMAIN c.bins |->
                    JObj(Mk(<< <<"atleast", JF(c.ths[i])>>, <<"data", Frag(c.bins[i], d.value, TRUE)>> >>))])>>,
              <<"nanflow:type", JStr(d.nan.k)>>, <<"nanflow", Frag(c.nan, d.nan, FALSE)>> >>),
              "name", own), "bins:name", QName(d.value)))
    [] d.k = "Categorize" ->
         JObj(Opt(Opt(Mk(<<E, <<"bins:type", JStr(d.value.k)>>,
              <<"bins", JObj([key \in DOMAIN c.bins |-> Frag(c.bins[key], d.value, TRUE)])>> >>),
              "name", own), "bins:name", QName(d.value)))
    [] d.k = "Fraction" ->
         JObj(Opt(Opt(Mk(<<E, <<"sub:type", JStr(d.value.k)>>,
              <<"numerator", Frag(c.num, d.value, TRUE)>>, <<"denominator", Frag(c.den, d.value, TRUE)>> >>),
              "name", own), "sub:name", QName(d.value)))
    [] d.k = "Select" ->
         JObj(Opt(Mk(<<E, <<"sub:type", JStr(d.cut.k)>>, <<"data", Frag(c.cut, d.cut, FALSE)>> >>), "name", own))
    [] d.k = "Label" ->
         LET k1 == CHOOSE key \in DOMAIN d.pairs : TRUE IN
         JObj(Mk(<<E, <<"sub:type", JStr(d.pairs[k1].k)>>,
                   <<"data", JObj([key \in DOMAIN c.pairs |-> Frag(c.pairs[key], d.pairs[key], FALSE)])>> >>))
    [] d.k = "UntypedLabel" ->
         JObj(Mk(<<E, <<"data", JObj([key \in DOMAIN c.pairs |->
                   JObj(Mk(<< <<"type", JStr(d.pairs[key].k)>>, <<"data", Frag(c.pairs[key], d.pairs[key], FALSE)>> >>))])>> >>))
    [] d.k = "Index" ->
         JObj(Mk(<<E, <<"sub:type", JStr(d.vals[1].k)>>,
                   <<"data", JArr([i \in DOMAIN c.vals |-> Frag(c.vals[i], d.vals[i], FALSE)])>> >>))
    [] d.k = "Branch" ->
         JObj(Mk(<<E, <<"data", JArr([i \in DOMAIN c.vals |->
                   JObj(Mk(<< <<"type", JStr(d.vals[i].k)>>, <<"data", Frag(c.vals[i], d.vals[i], FALSE)>> >>))])>> >>))

ToDoc(c, d) == JObj(Mk(<< <<"type", JStr(d.k)>>, <<"data", Frag(c, d, FALSE)>>, <<"version", JStr(SpecVersion)>> >>))

-----------------------------------------------------------------------------
(* equality of tagged values: tags first                                    *)
RECURSIVE DocEq(_, _)
DocEq(a, b) ==
  /\ a.j = b.j
  /\ CASE a.j \in {"obj", "bagvals"} ->
            DOMAIN a.v = DOMAIN b.v /\ \A k \in DOMAIN a.v : DocEq(a.v[k], b.v[k])
       [] a.j = "arr" -> Len(a.v) = Len(b.v) /\ \A i \in DOMAIN a.v : DocEq(a.v[i], b.v[i])
       [] OTHER -> a.v = b.v

(* every tagged number is finite and every special a string (strictness)    *)
RECURSIVE Strict(_)
Strict(x) ==
  CASE x.j \in {"obj", "bagvals"} -> \A k \in DOMAIN x.v : Strict(x.v[k])
    [] x.j = "arr" -> \A i \in DOMAIN x.v : Strict(x.v[i])
    [] x.j = "num" -> IsFin(x.v)
    [] OTHER -> TRUE

-----------------------------------------------------------------------------
(* generic single-point structural mutations of tagged documents (C15)      *)
RECURSIVE Paths(_)
Paths(x) == {<<>>} \cup
   (IF x.j = "obj" THEN UNION { { <<[k |-> k, i |-> 0]>> \o p : p \in Paths(x.v[k]) } : k \in DOMAIN x.v }
    ELSE IF x.j = "arr" THEN UNION { { <<[k |-> "", i |-> i]>> \o p : p \in Paths(x.v[i]) } : i \in DOMAIN x.v }
    ELSE {})
RECURSIVE At(_, _)
At(x, p) == IF p = <<>> THEN x
            ELSE IF x.j = "obj" THEN At(x.v[Head(p).k], Tail(p)) ELSE At(x.v[Head(p).i], Tail(p))
RECURSIVE PutAt(_, _, _)
PutAt(x, p, y) == IF p = <<>> THEN y
                  ELSE IF x.j = "obj" THEN JObj([x.v EXCEPT ![Head(p).k] = PutAt(@, Tail(p), y)])
                  ELSE JArr([x.v EXCEPT ![Head(p).i] = PutAt(@, Tail(p), y)])
RestrictTo(f, S) == [k \in S |-> f[k]]

RetypeSeq == <<JStr("bogus"), JArr(<<>>), JObj([zz |-> JNum(Q(1))]), [j |-> "bool", v |-> TRUE],
               [j |-> "null", v |-> "null"], JNum(Q(-1))>>
RenameSeq == <<"Sum", "Stack", "IrregularlyBin", "Nonsense", "Count">>
VersionSeq == <<"0.9", "1.0", "1.2", "2.0", "2.5", "abc">>

(* keys that are added: an unknown one, and names from the format's own vocabulary (required somewhere else)   *)
AddKeys == {"extra", "entries", "data", "type", "sub:type", "atleast", "center", "w", "v"}

(* mutation descriptors are homogeneous records, so they can live in a set  *)
MutIds(doc) ==
   UNION { LET x == At(doc, p) IN
      { [p |-> p, kind |-> "retype", n |-> n, key |-> ""] : n \in {n \in DOMAIN RetypeSeq : ~DocEq(RetypeSeq[n], x)} }
      \cup (IF x.j = "obj"
            THEN { [p |-> p, kind |-> "delkey", n |-> 0, key |-> k] : k \in DOMAIN x.v }
                 \cup { [p |-> p, kind |-> "addkey", n |-> 0, key |-> k] : k \in AddKeys \ DOMAIN x.v }
            ELSE {})
      \cup (IF x.j = "str" /\ x.v \in Kinds
            THEN { [p |-> p, kind |-> "rename", n |-> n, key |-> ""] : n \in {n \in DOMAIN RenameSeq : RenameSeq[n] # x.v} }
            ELSE {})
      \cup (IF x.j = "arr" /\ Len(x.v) > 0 THEN { [p |-> p, kind |-> "delelem", n |-> 0, key |-> ""] } ELSE {})
      \cup (IF p = <<[k |-> "version", i |-> 0]>>
            THEN { [p |-> p, kind |-> "version", n |-> n, key |-> ""] : n \in DOMAIN VersionSeq }
            ELSE {})
      : p \in Paths(doc) }

Apply(doc, m) ==
   LET x == At(doc, m.p) IN
   CASE m.kind = "retype" -> PutAt(doc, m.p, RetypeSeq[m.n])
     [] m.kind = "delkey" -> PutAt(doc, m.p, JObj(RestrictTo(x.v, DOMAIN x.v \ {m.key})))
     [] m.kind = "addkey" -> PutAt(doc, m.p, JObj([k \in DOMAIN x.v \cup {m.key} |-> IF k = m.key THEN JNum(Q(1)) ELSE x.v[k]]))
     [] m.kind = "rename" -> PutAt(doc, m.p, JStr(RenameSeq[m.n]))
     [] m.kind = "delelem" -> PutAt(doc, m.p, JArr(Tail(x.v)))
     [] m.kind = "version" -> PutAt(doc, m.p, JStr(VersionSeq[m.n]))
=============================================================================
