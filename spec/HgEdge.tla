------------------------------- MODULE HgEdge -------------------------------
(***************************************************************************)
(* The near-edge regime (C05, C13): binning nodes with arbitrary           *)
(* floating-point parameters (non-dyadic widths such as 0.1 or 1/3, large  *)
(* offsets) probed with floats within a few ulps of every bin edge.        *)
(*                                                                         *)
(* Here the edges are not representable, and the library's index           *)
(* arithmetic may legitimately put a float that is adjacent to an internal *)
(* edge into either neighbouring bin.  The specification is therefore      *)
(* NONDETERMINISTIC about the bin, and exact about everything else:        *)
(*   - every numeric value is accepted (the call does not raise);          *)
(*   - exactly one bin (or flow) receives the weight, totals are conserved; *)
(*   - that bin is the real-arithmetic bin r or, for a probe near an edge   *)
(*     of a node that computes its index arithmetically, an immediate       *)
(*     neighbour, clipped to the valid range;                               *)
(*   - what the code decides with direct comparisons is exact: x < low,     *)
(*     x >= high, NaN, irregular edges, thresholds;                         *)
(*   - the views afterwards agree with THE SAME choice: bin_entries at the  *)
(*     probe returns the content of the bin the probe went to, and the      *)
(*     accessors are mutually consistent.                                   *)
(* The harness classifies every probe exactly (Fraction arithmetic on the   *)
(* actual float parameters) and logs the real-arithmetic bin r; positions   *)
(* returned by the accessors are logged as order-preserving ranks.  TLC     *)
(* infers the library's choice from the logged post-state.                  *)
(***************************************************************************)
EXTENDS HgNum, Json, IOUtils

Input == JsonDeserialize(IOEnv.TRACE_FILE)
Traces == Input.traces

VARIABLES tid, l,
          cnt,     \* [e, under, over, nan : numbers; bins : key -> number]
          where    \* probe id -> key of the bin it went to ("" = not filled / a flow)
vars == <<tid, l, cnt, where>>

T == Traces[tid]
Ev == T.events[l]
Ok == Ev.out = "ok"
EmptyF == [x \in {} |-> 0]
Get(f, k) == IF k \in DOMAIN f THEN f[k] ELSE Q(0)
PutF(f, k, v) == [x \in DOMAIN f \cup {k} |-> IF x = k THEN v ELSE f[x]]

Init == /\ tid \in 1..Len(Traces) /\ l = 1
        /\ cnt = [e |-> Q(0), under |-> Q(0), over |-> Q(0), nan |-> Q(0),
                  bins |-> IF Traces[tid].bkind = "SparselyBin" THEN EmptyF
                           ELSE [k \in {ToString(i) : i \in 0..(Traces[tid].n - 1)} |-> Q(0)]]
        /\ where = [p \in 1..Traces[tid].nprobes |-> ""]

(* the bins a probe may go to *)
Allowed(r, near) ==
  LET S == IF near /\ T.bkind \in {"Bin", "SparselyBin", "CentrallyBin"} THEN {r - 1, r, r + 1} ELSE {r}
  IN IF T.bkind = "SparselyBin" THEN S ELSE S \cap (0..(T.n - 1))

(* state after the weight w went to bin b / to a flow *)
BumpBin(b, w) ==
  IF T.bkind = "Stack"
  THEN [cnt EXCEPT !.e = Add(@, w),     \* cumulative: every level up to b
                   !.bins = [k \in DOMAIN @ |-> IF \E i \in 0..b : ToString(i) = k THEN Add(@[k], w) ELSE @[k]]]
  ELSE [cnt EXCEPT !.e = Add(@, w), !.bins = PutF(@, ToString(b), Add(Get(@, ToString(b)), w))]
BumpFlow(f, w) ==
  CASE f = "under" -> [cnt EXCEPT !.e = Add(@, w), !.under = Add(@, w)]
    [] f = "over" -> [cnt EXCEPT !.e = Add(@, w), !.over = Add(@, w)]
    [] f = "nan" -> [cnt EXCEPT !.e = Add(@, w), !.nan = Add(@, w)]

(* sparse maps are compared modulo absent = 0 *)
SameCnt(a, b) ==
  /\ a.e = b.e /\ a.under = b.under /\ a.over = b.over /\ a.nan = b.nan
  /\ \A k \in DOMAIN a.bins \cup DOMAIN b.bins : Get(a.bins, k) = Get(b.bins, k)

Choices == IF Ev.cls = "in" THEN {b \in Allowed(Ev.r, Ev.near) : SameCnt(Ev.post, BumpBin(b, Ev.w))} ELSE {}

(* --- clauses --- *)
FillClauses ==
  [ outcome |-> Ok,                                             \* every numeric value is accepted
    routed  |-> ~Ok \/ IF Ev.cls = "in" THEN Choices # {}
                       ELSE IF Ev.cls = "sat"      \* a saturated sparse index: exactly one bin, whichever, got the weight
                       THEN \E k \in DOMAIN Ev.post.bins :
                               SameCnt(Ev.post, [cnt EXCEPT !.e = Add(@, Ev.w), !.bins = PutF(@, k, Add(Get(@, k), Ev.w))])
                       ELSE SameCnt(Ev.post, BumpFlow(Ev.cls, Ev.w)),
    unchanged |-> Ok \/ SameCnt(Ev.post, cnt) ]

XEntClauses ==
  [ outcome |-> Ok,
    xent |-> ~Ok \/ where[Ev.xid] = "" \/ Ev.res = Get(cnt.bins, where[Ev.xid]) ]

IsSeqInc(s) == \A i \in 1..(Len(s) - 1) : s[i] <= s[i + 1]
ViewClauses ==
  LET r == Ev.res IN
  [ outcome |-> Ok \/ ~Ev.overlap,
    consistent |-> ~Ok \/ ~Ev.overlap \/
        /\ Len(r.edges) = r.nb + 1 /\ Len(r.centers) = r.nb /\ Len(r.ent) = r.nb       \* one more edge than bins ...
        /\ \A k \in 1..r.nb : r.edges[k] <= r.centers[k] /\ r.centers[k] <= r.edges[k + 1]  \* centres between edges
        /\ IsSeqInc(r.edges)
        (* the sub-range is a contiguous run of the full partition, with the entries of exactly those bins *)
        /\ \E s \in 0..(Len(r.fedges) - Len(r.edges)) :
              /\ \A k \in DOMAIN r.edges : r.edges[k] = r.fedges[s + k]
              /\ \A k \in DOMAIN r.ent : r.ent[k] = r.fent[s + k],
    total |-> ~Ok \/ ~Ev.full \/
        (* the full-range entries are the bins: they add up to entries minus the flows *)
        LET RECURSIVE SumS(_)
            SumS(s) == IF s = <<>> THEN Q(0) ELSE Add(Head(s), SumS(Tail(s)))
        IN T.bkind = "Stack" \/ Add(Add(Add(SumS(r.ent), cnt.under), cnt.over), cnt.nan) = cnt.e ]

(* Named deviation (known finding): the sub-range accessors of Bin / SparselyBin decide "the upper bound lies on a
   bin edge" with numpy.isclose and its RELATIVE tolerance 1e-5, so for bins narrower than about 1e-5 of their
   position every upper bound counts as on-edge and the selected range loses its last bin (or becomes empty). *)
DevFor(cl) ==
  IF Ev.op = "EView" /\ cl \in {"consistent", "outcome"} /\ ~Ev.full /\ Ev.fine /\ T.bkind \in {"Bin", "SparselyBin"}
  THEN "Dev_IsCloseRelativeTolerance" ELSE ""

Names(op) == CASE op = "EFill" -> {"outcome", "routed", "unchanged"}
               [] op = "EXEnt" -> {"outcome", "xent"}
               [] op = "EView" -> {"outcome", "consistent", "total"}

Next ==
  /\ l <= Len(T.events)
  /\ LET F == CASE Ev.op = "EFill" -> FillClauses [] Ev.op = "EXEnt" -> XEntClauses [] Ev.op = "EView" -> ViewClauses
         bad == {cl \in Names(Ev.op) : ~F[cl]}
     IN /\ \A cl \in bad : PrintT(ToJson([t |-> T.id, l |-> l, op |-> Ev.op, cl |-> cl, dev |-> DevFor(cl), exp |-> <<>>, obs |-> <<>>]))
        /\ cnt' = IF Ev.op = "EFill" THEN Ev.post ELSE cnt          \* continue from what the implementation did
        (* remember where a probe went when it was filled ROW-WISE: bin_entries(xvalues) looks a value up with the
           row-wise index arithmetic; the vectorised path may legitimately round a near-edge float into the other
           neighbour, so after a vectorised fill of that probe nothing is claimed about its look-up *)
        /\ where' = IF Ev.op = "EFill" /\ Ok /\ Ev.cls = "in" /\ Choices # {} /\ ~Ev.vec
                    THEN [where EXCEPT ![Ev.xid] = ToString(CHOOSE b \in Choices : TRUE)]
                    ELSE IF Ev.op = "EFill" THEN [where EXCEPT ![Ev.xid] = ""]
                    ELSE where
        /\ l' = l + 1
  /\ UNCHANGED tid
Spec == Init /\ [][Next]_vars
=============================================================================
