------------------------------- MODULE HgFrame -------------------------------
(***************************************************************************)
(* The DataFrame interface (C14): make_histograms(df, features, binning,    *)
(* bin_specs, time_axis, ...).                                              *)
(*                                                                         *)
(* A frame is a sequence of rows; a row is a record column -> value        *)
(* (numbers as HgNum pairs, NaN for missing floats, booleans as the strings *)
(* "True" / "False", timestamps as day counts).  For a feature (a sequence  *)
(* of 1..3 column names) the documented mapping from bin specifications to  *)
(* primitives builds the tree from the LAST column inwards, starting from   *)
(* Count (HistogramFillerBase.construct_empty_hist / get_hist_bin):         *)
(*   numeric / timestamp column: binWidth(+origin) -> SparselyBin,          *)
(*      num+low+high -> Bin, edges -> IrregularlyBin, centers ->            *)
(*      CentrallyBin, thresholds -> Stack, maximize / minimize / average /  *)
(*      deviate / sum -> that leaf (the columns after it are dropped),      *)
(*   boolean column: Categorize.                                           *)
(* The specification of a column is looked up as var_bin_specs does: the    *)
(* per-feature list entry if there is one, else the per-column entry, else  *)
(* the default (unit bins; 30-day bins from 2010-01-04 for timestamps).     *)
(* The histogram of a feature is the fold of Fill over the rows with unit   *)
(* weights: MakeHist.                                                      *)
(***************************************************************************)
EXTENDS HgTree

CountD == [k |-> "Count", tr |-> "id"]
Has(s, key) == key \in DOMAIN s
DefaultSpec(dt) == IF dt = "dt" THEN [binWidth |-> Q(30), origin |-> Q(0)]
                   ELSE [binWidth |-> Q(1), origin |-> Q(0)]

RECURSIVE JoinCols(_)
JoinCols(cols) == IF Len(cols) = 1 THEN cols[1] ELSE cols[1] \o ":" \o JoinCols(Tail(cols))

(* var_bin_specs(c, idx)                                                    *)
SpecFor(cols, idx, specs, dts) ==
  LET n == JoinCols(cols)
      default == DefaultSpec(dts[cols[idx]])
      percol == IF Has(specs, cols[idx]) THEN specs[cols[idx]] ELSE default
  IN IF Len(cols) > 1 /\ Has(specs, n) /\ Len(specs[n]) = Len(cols)
     THEN (IF DOMAIN specs[n][idx] = {} THEN percol ELSE specs[n][idx])
     ELSE percol

(* get_hist_bin                                                             *)
NodeFor(col, dt, s, inner) ==
  LET base == [q |-> col, nm |-> "", fid |-> "", form |-> "fn"]
      leaf(kind) == base @@ [k |-> kind]
  IN
  IF dt = "bool" THEN base @@ [k |-> "Categorize", value |-> inner]
  ELSE IF Has(s, "binWidth") THEN
       base @@ [k |-> "SparselyBin", width |-> s.binWidth, origin |-> IF Has(s, "origin") THEN s.origin ELSE Q(0),
                value |-> inner, nan |-> CountD]
  ELSE IF Has(s, "num") /\ Has(s, "low") /\ Has(s, "high") THEN
       base @@ [k |-> "Bin", num |-> s.num, lo |-> s.low, hi |-> s.high, value |-> inner,
                under |-> CountD, over |-> CountD, nan |-> CountD]
  ELSE IF Has(s, "edges") THEN base @@ [k |-> "IrregularlyBin", edges |-> s.edges, value |-> inner, nan |-> CountD]
  ELSE IF Has(s, "maximize") THEN leaf("Maximize")
  ELSE IF Has(s, "minimize") THEN leaf("Minimize")
  ELSE IF Has(s, "average") THEN leaf("Average")
  ELSE IF Has(s, "deviate") THEN leaf("Deviate")
  ELSE IF Has(s, "sum") THEN leaf("Sum")
  ELSE IF Has(s, "centers") THEN base @@ [k |-> "CentrallyBin", centers |-> s.centers, value |-> inner, nan |-> CountD]
  ELSE IF Has(s, "thresholds") THEN base @@ [k |-> "Stack", thresholds |-> s.thresholds, value |-> inner, nan |-> CountD]
  ELSE CountD

RECURSIVE TreeFrom(_, _, _, _)
TreeFrom(cols, idx, specs, dts) ==     \* the tree for columns idx..Len(cols)
  IF idx > Len(cols) THEN CountD
  ELSE NodeFor(cols[idx], dts[cols[idx]], SpecFor(cols, idx, specs, dts), TreeFrom(cols, idx + 1, specs, dts))
TreeOf(cols, specs, dts) == TreeFrom(cols, 1, specs, dts)

MakeHist(rows, cols, specs, dts) ==
  LET T == TreeOf(cols, specs, dts)
  IN FoldFill(Zero(T), T, rows, [i \in DOMAIN rows |-> Q(1)])
-----------------------------------------------------------------------------
(* The convenience constructors (histogrammar.convenience): which tree each  *)
(* name stands for.  ConvOK(name, d): descriptor d is what `name` builds.    *)
PlainCount(d) == d.k = "Count" /\ d.tr = "id"
Hist1D(d) == d.k = "Bin" /\ PlainCount(d.value) /\ PlainCount(d.under) /\ PlainCount(d.over) /\ PlainCount(d.nan)
Sparse1D(d) == d.k = "SparselyBin" /\ PlainCount(d.value) /\ PlainCount(d.nan)
BinOf(d, kind) == d.k = "Bin" /\ d.value.k = kind /\ PlainCount(d.under) /\ PlainCount(d.over) /\ PlainCount(d.nan)
SparseOf(d, kind) == d.k = "SparselyBin" /\ d.value.k = kind /\ PlainCount(d.nan)
ConvOK(name, d) ==
  CASE name = "Histogram" -> Hist1D(d)
    [] name = "HistogramCut" -> d.k = "Select" /\ Hist1D(d.cut)
    [] name = "SparselyHistogram" -> Sparse1D(d)
    [] name = "CategorizeHistogram" -> d.k = "Categorize" /\ PlainCount(d.value)
    [] name = "Profile" -> BinOf(d, "Average")
    [] name = "SparselyProfile" -> SparseOf(d, "Average")
    [] name = "ProfileErr" -> BinOf(d, "Deviate")
    [] name = "SparselyProfileErr" -> SparseOf(d, "Deviate")
    [] name = "TwoDimensionallyHistogram" -> d.k = "Bin" /\ Hist1D(d.value) /\ PlainCount(d.under) /\ PlainCount(d.over) /\ PlainCount(d.nan)
    [] name = "TwoDimensionallySparselyHistogram" -> d.k = "SparselyBin" /\ Sparse1D(d.value) /\ PlainCount(d.nan)
    [] OTHER -> FALSE
=============================================================================
