------------------------------- MODULE HgSem -------------------------------
(***************************************************************************)
(* Denotational semantics: Sem(d, B) is the content the Histogrammar       *)
(* specification assigns to descriptor d and the MULTISET B of             *)
(* <<datum, weight>> pairs (weight > 0) that were routed to the node:      *)
(* entries = sum of weights, sum = sum of w*q, mean = sum(w*q)/sum(w),     *)
(* variance*entries = sum of w*(q-mean)^2, extrema ignoring NaN, value ->  *)
(* weight map, and for binning nodes the sub-multiset per half-open        *)
(* interval / category / nearest centre / cumulative threshold, NaN to the *)
(* NaN bin.  It is written over multisets (module Bags), so independence   *)
(* of fill order and of the partition into chunks is built in; the model   *)
(* checker verifies that the operational Fill / Merge / Scale of HgTree    *)
(* agree with it in every reachable state (HgSystem!SemInv).               *)
(***************************************************************************)
EXTENDS HgTree, Bags

RECURSIVE SumBag(_, _, _)
SumBag(B, f(_, _), acc) ==
  IF DOMAIN B = {} THEN acc
  ELSE LET e == CHOOSE e \in DOMAIN B : TRUE
       IN SumBag([x \in (DOMAIN B) \ {e} |-> B[x]], f, Add(acc, Mul(Q(B[e]), f(e[1], e[2]))))

RECURSIVE FoldBag(_, _, _)
FoldBag(B, f(_, _), acc) ==
  IF DOMAIN B = {} THEN acc
  ELSE LET e == CHOOSE e \in DOMAIN B : TRUE
       IN FoldBag([x \in (DOMAIN B) \ {e} |-> B[x]], f, f(acc, e[1]))

(* the multiset seen by a child: data satisfying P, weight transformed by  *)
(* g, dropped when the new weight is not > 0                               *)
RECURSIVE MapBag(_, _, _, _)
MapBag(B, P(_), g(_, _), acc) ==
  IF DOMAIN B = {} THEN acc
  ELSE LET e == CHOOSE e \in DOMAIN B : TRUE
           rest == [x \in (DOMAIN B) \ {e} |-> B[x]]
           w2 == g(e[1], e[2])
       IN IF P(e[1]) /\ Gt(w2, Q(0))
          THEN MapBag(rest, P, g, acc (+) [x \in {<<e[1], w2>>} |-> B[e]])
          ELSE MapBag(rest, P, g, acc)

Restrict(B, P(_)) == MapBag(B, P, LAMBDA x, w : w, EmptyBag)
SubW(B, g(_, _)) == MapBag(B, LAMBDA x : TRUE, g, EmptyBag)
KeysOf(B, key(_)) == {key(e[1]) : e \in DOMAIN B}
ScaleBag(B, f) == IF IsNaN(f) \/ ~Gt(f, Q(0)) THEN EmptyBag
                  ELSE MapBag(B, LAMBDA x : TRUE, LAMBDA x, w : Mul(w, f), EmptyBag)

RECURSIVE Sem(_, _)
Sem(d, B) ==
  LET e == SumBag(B, LAMBDA x, w : w, Q(0))
      Z == Zero(d)
  IN
  CASE d.k = "Count" ->
         [Z EXCEPT !.e = IF d.tr = "sq" THEN SumBag(B, LAMBDA x, w : Mul(w, w), Q(0)) ELSE e]
    [] d.k = "Sum" -> [Z EXCEPT !.e = e, !.s = SumBag(B, LAMBDA x, w : Mul(QV(d, x), w), Q(0))]
    [] d.k \in {"Average", "Deviate"} ->
         LET swq == SumBag(B, LAMBDA x, w : Mul(QV(d, x), w), Q(0))
             mean == IF DOMAIN B = {} THEN NaN ELSE Div(swq, e)
         IN IF d.k = "Average" THEN [Z EXCEPT !.e = e, !.mean = mean]
            ELSE [Z EXCEPT !.e = e, !.mean = mean,
                           !.vte = IF ~IsFin(mean) THEN NaN
                                   ELSE SumBag(B, LAMBDA x, w : Mul(w, Mul(Sub(QV(d, x), mean), Sub(QV(d, x), mean))), Q(0))]
    [] d.k = "Minimize" -> [Z EXCEPT !.e = e, !.min = FoldBag(B, LAMBDA acc, x : MinPlus(acc, QV(d, x)), NaN)]
    [] d.k = "Maximize" -> [Z EXCEPT !.e = e, !.max = FoldBag(B, LAMBDA acc, x : MaxPlus(acc, QV(d, x)), NaN)]
    [] d.k = "Bag" ->
         [Z EXCEPT !.e = e,
                   !.vals = [key \in KeysOf(B, LAMBDA x : BagKey(d, x)) |->
                               SumBag(Restrict(B, LAMBDA x : BagKey(d, x) = key), LAMBDA x, w : w, Q(0))]]
    [] d.k = "Bin" ->
         [Z EXCEPT !.e = e,
            !.vals = [i \in 1..d.num |->
                        Sem(d.value, Restrict(B, LAMBDA x : LET q == QV(d, x) IN
                              ~IsNaN(q) /\ Ge(q, d.lo) /\ Lt(q, d.hi) /\ BinIndex(Z, q) = i - 1))],
            !.under = Sem(d.under, Restrict(B, LAMBDA x : Lt(QV(d, x), d.lo))),
            !.over = Sem(d.over, Restrict(B, LAMBDA x : Ge(QV(d, x), d.hi))),
            !.nan = Sem(d.nan, Restrict(B, LAMBDA x : IsNaN(QV(d, x))))]
    [] d.k = "SparselyBin" ->
         [Z EXCEPT !.e = e,
            !.bins = [key \in KeysOf(Restrict(B, LAMBDA x : ~IsNaN(QV(d, x))), LAMBDA x : SparseKey(Z, QV(d, x))) |->
                        Sem(d.value, Restrict(B, LAMBDA x : ~IsNaN(QV(d, x)) /\ SparseKey(Z, QV(d, x)) = key))],
            !.nan = Sem(d.nan, Restrict(B, LAMBDA x : IsNaN(QV(d, x))))]
    [] d.k = "CentrallyBin" ->
         [Z EXCEPT !.e = e,
            !.bins = [i \in Idx(d.centers) |->
                        Sem(d.value, Restrict(B, LAMBDA x : ~IsNaN(QV(d, x)) /\ CentralIndex(d.centers, QV(d, x)) = i))],
            !.nan = Sem(d.nan, Restrict(B, LAMBDA x : IsNaN(QV(d, x))))]
    [] d.k = "IrregularlyBin" ->
         [Z EXCEPT !.e = e,
            !.bins = [i \in 1..(Len(d.edges) + 1) |->
                        Sem(d.value, Restrict(B, LAMBDA x : ~IsNaN(QV(d, x)) /\ IrrIndex(Z.ths, QV(d, x)) = i))],
            !.nan = Sem(d.nan, Restrict(B, LAMBDA x : IsNaN(QV(d, x))))]
    [] d.k = "Stack" ->
         [Z EXCEPT !.e = e,
            !.bins = [i \in 1..(Len(d.thresholds) + 1) |->
                        Sem(d.value, Restrict(B, LAMBDA x : Ge(QV(d, x), Z.ths[i])))],
            !.nan = Sem(d.nan, Restrict(B, LAMBDA x : IsNaN(QV(d, x))))]
    [] d.k = "Categorize" ->
         [Z EXCEPT !.e = e,
            !.bins = [key \in KeysOf(B, LAMBDA x : CatOf(QV(d, x))) |->
                        Sem(d.value, Restrict(B, LAMBDA x : CatOf(QV(d, x)) = key))]]
    [] d.k = "Fraction" ->
         [Z EXCEPT !.e = e, !.den = Sem(d.value, B),
                   !.num = Sem(d.value, SubW(B, LAMBDA x, w : Mul(QV(d, x), w)))]
    [] d.k = "Select" ->
         [Z EXCEPT !.e = e, !.cut = Sem(d.cut, SubW(B, LAMBDA x, w : Mul(QV(d, x), w)))]
    [] d.k \in {"Label", "UntypedLabel"} ->
         [Z EXCEPT !.e = e, !.pairs = [key \in DOMAIN d.pairs |-> Sem(d.pairs[key], B)]]
    [] d.k \in {"Index", "Branch"} ->
         [Z EXCEPT !.e = e, !.vals = [i \in Idx(d.vals) |-> Sem(d.vals[i], B)]]
=============================================================================
