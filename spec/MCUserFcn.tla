------------------------------- MODULE MCUserFcn -------------------------------
(* model-checking instance of HgUserFcn: 4 arguments (two scalars, two arrays), all application orders and call
   sequences of up to MaxOps steps *)
EXTENDS HgUserFcn
mcF == <<<<3>>, <<5>>, <<3, 5>>, <<3, 7>>, <<-1>>, <<-3>>>>
=============================================================================
