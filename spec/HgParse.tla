------------------------------- MODULE HgParse -------------------------------
(***************************************************************************)
(* Loading: Parse(doc) is the three-valued validity predicate ValidDoc     *)
(* together with the partial inverse FromDoc of HgDoc!ToDoc.               *)
(*                                                                         *)
(*   st = "valid"   : the document is a serialisation; Factory.fromJson    *)
(*                    must load it and the loaded container must be        *)
(*                    <<d, c>> (judged through its re-serialisation).      *)
(*   st = "invalid" : not a valid serialisation (missing / extra key,      *)
(*                    wrong JSON type, unknown primitive, malformed list   *)
(*                    element, negative entries, bad version): loading     *)
(*                    must raise.                                          *)
(*   st = "unspec"  : accepted or rejected, nothing is compared (DESIGN 6, *)
(*                    C15: booleans for numbers, null names, Bag value     *)
(*                    types vs. range, header extras, ambiguous versions,  *)
(*                    heterogeneous list elements).                        *)
(* Recursive descent with the expected type name handed down, shaped like  *)
(* the fromJsonFragment methods.                                           *)
(***************************************************************************)
EXTENDS HgDoc

St2(a, b) == IF a = "invalid" \/ b = "invalid" THEN "invalid"
             ELSE IF a = "unspec" \/ b = "unspec" THEN "unspec" ELSE "valid"
RECURSIVE StAll(_)
StAll(sq) == IF sq = <<>> THEN "valid" ELSE St2(Head(sq), StAll(Tail(sq)))
StSet(S) == IF "invalid" \in S THEN "invalid" ELSE IF "unspec" \in S THEN "unspec" ELSE "valid"

R(st, d, c) == [st |-> st, d |-> d, c |-> c]
DummyDesc == [k |-> "Count", tr |-> "id"]
DummyCont == [k |-> "Count", e |-> Q(0)]
Bad == R("invalid", DummyDesc, DummyCont)
Unspec == R("unspec", DummyDesc, DummyCont)

PNum(x) == CASE x.j = "num" -> [st |-> "valid", v |-> x.v]
             [] x.j = "str" -> (IF x.v = "nan" THEN [st |-> "valid", v |-> NaN]
                                ELSE IF x.v = "inf" THEN [st |-> "valid", v |-> PInf]
                                ELSE IF x.v = "-inf" THEN [st |-> "valid", v |-> NInf]
                                ELSE [st |-> "invalid", v |-> NaN])
             [] x.j = "bool" -> [st |-> "unspec", v |-> NaN]
             [] OTHER -> [st |-> "invalid", v |-> NaN]
PEnt(x) == LET p == PNum(x) IN IF p.st = "valid" /\ Lt(p.v, Q(0)) THEN [st |-> "invalid", v |-> NaN] ELSE p
PName(o, key) == IF key \notin DOMAIN o THEN [st |-> "valid", v |-> ""]
                 ELSE IF o[key].j = "str" THEN [st |-> "valid", v |-> o[key].v]
                 ELSE IF o[key].j = "null" THEN [st |-> "unspec", v |-> ""] ELSE [st |-> "invalid", v |-> ""]
PType(o, key) == IF o[key].j = "str" /\ o[key].v \in Kinds THEN [st |-> "valid", v |-> o[key].v]
                 ELSE [st |-> "invalid", v |-> "Count"]
KeysOK(x, req, opt) == x.j = "obj" /\ req \subseteq DOMAIN x.v /\ DOMAIN x.v \subseteq req \cup opt
Own(nm, parent) == IF nm = "" THEN parent ELSE nm
(* the children of one container must agree in kind, structure and hoisted name; an opaque child (empty sparse
   container below) agrees with anything of its kind *)
RECURSIVE NamesAlike(_, _)
NamesAlike(a, b) ==      \* for descriptors that are CompatD: the same quantity names at every depth both know about
  IF IsOpaque(a) \/ IsOpaque(b) THEN TRUE ELSE
  /\ QName(a) = QName(b)
  /\ CASE a.k \in LeafKinds -> TRUE
       [] a.k = "Bin" -> NamesAlike(a.value, b.value) /\ NamesAlike(a.under, b.under)
                         /\ NamesAlike(a.over, b.over) /\ NamesAlike(a.nan, b.nan)
       [] a.k \in {"SparselyBin", "CentrallyBin", "IrregularlyBin", "Stack"} ->
            NamesAlike(a.value, b.value) /\ NamesAlike(a.nan, b.nan)
       [] a.k \in {"Categorize", "Fraction"} -> NamesAlike(a.value, b.value)
       [] a.k = "Select" -> NamesAlike(a.cut, b.cut)
       [] a.k \in {"Label", "UntypedLabel"} -> \A key \in DOMAIN a.pairs : NamesAlike(a.pairs[key], b.pairs[key])
       [] a.k \in {"Index", "Branch"} -> \A i \in DOMAIN a.vals : NamesAlike(a.vals[i], b.vals[i])
Alike(a, b) == CompatD(a, b) /\ NamesAlike(a, b)
Homog(ds) == \A i \in DOMAIN ds : Alike(ds[i], ds[1])
HomogSet(S) == \A a \in S, b \in S : Alike(a, b)

(* descriptor of a child as far as a document determines it: kind, name and structure; the quantity itself is gone *)
LeafD(kind, nm) == [k |-> kind, q |-> "?", nm |-> nm, fid |-> "", form |-> "none"]

(* canonical key of a Bag value                                              *)
RECURSIVE JoinKeys(_)
JoinKeys(sq) == IF Len(sq) = 1 THEN sq[1] ELSE sq[1] \o "," \o JoinKeys(Tail(sq))
PBagKey(v) ==
  CASE v.j = "num" -> [st |-> "valid", ty |-> "N", key |-> KeyN(v.v)]
    [] v.j = "str" -> (IF v.v = "nan" THEN [st |-> "unspec", ty |-> "?", key |-> "nan"]      \* "nan" is a number and a text
                       ELSE IF v.v \in {"inf", "-inf"} THEN [st |-> "valid", ty |-> "N", key |-> KeyN(PNum(v).v)]
                       ELSE [st |-> "valid", ty |-> "S", key |-> "s:" \o v.v])
    [] v.j = "arr" -> (IF Len(v.v) = 0 THEN [st |-> "unspec", ty |-> "?", key |-> ""]
                       ELSE IF \E i \in DOMAIN v.v : PNum(v.v[i]).st # "valid" THEN [st |-> PNum(v.v[CHOOSE i \in DOMAIN v.v : PNum(v.v[i]).st # "valid"]).st, ty |-> "?", key |-> ""]
                       ELSE [st |-> "valid", ty |-> "V", key |-> JoinKeys([i \in DOMAIN v.v |-> KeyN(PNum(v.v[i]).v)])])
    [] v.j = "bool" -> [st |-> "unspec", ty |-> "?", key |-> ""]
    [] OTHER -> [st |-> "invalid", ty |-> "?", key |-> ""]

PBag(x, parent) ==
  IF ~KeysOK(x, {"entries", "values", "range"}, {"name"}) THEN Bad ELSE
  LET o == x.v e == PEnt(o["entries"]) nm == PName(o, "name") IN
  IF o["range"].j # "str" THEN Bad ELSE
  LET range == o["range"].v
      d == [k |-> "Bag", q |-> "?", nm |-> Own(nm.v, parent), fid |-> "", form |-> "none", range |-> range]
      vs == o["values"]
  IN
  IF vs.j = "null" THEN Unspec
  ELSE IF vs.j = "bagvals" THEN
       (* the canonical (already keyed) form, as ToDoc produces it *)
       LET wst == StSet({PNum(vs.v[key]).st : key \in DOMAIN vs.v})
           st0 == StAll(<<e.st, nm.st, wst>>)
       IN R(st0, d, IF st0 # "valid" THEN DummyCont
                    ELSE [k |-> "Bag", e |-> e.v, range |-> range, nm |-> d.nm,
                          vals |-> [key \in DOMAIN vs.v |-> PNum(vs.v[key]).v]])
  ELSE IF vs.j # "arr" THEN Bad
  ELSE IF \E i \in DOMAIN vs.v : ~KeysOK(vs.v[i], {"w", "v"}, {}) THEN Bad
  ELSE LET ks == [i \in DOMAIN vs.v |-> PBagKey(vs.v[i].v["v"])]
           ws == [i \in DOMAIN vs.v |-> PNum(vs.v[i].v["w"])]
           dup == \E i, j2 \in DOMAIN ks : i # j2 /\ ks[i].key = ks[j2].key
           tyok == \A i \in DOMAIN ks : ks[i].st # "valid" \/
                      (range = "N" /\ ks[i].ty = "N") \/ (range = "S" /\ ks[i].ty = "S")
                      \/ (range \notin {"N", "S"} /\ ks[i].ty = "V")
           neg == \E i \in DOMAIN ws : ws[i].st = "valid" /\ Lt(ws[i].v, Q(0))
           st == StAll(<<e.st, nm.st, StSet({ks[i].st : i \in DOMAIN ks}), StSet({ws[i].st : i \in DOMAIN ws}),
                         IF dup \/ ~tyok \/ neg \/ range \notin {"N", "S", "N2"} THEN "unspec" ELSE "valid">>)
       IN R(st, d,
            IF st # "valid" THEN DummyCont
            ELSE [k |-> "Bag", e |-> e.v, range |-> range, nm |-> d.nm,
                  vals |-> [key \in {ks[i].key : i \in DOMAIN ks} |-> ws[CHOOSE i \in DOMAIN ks : ks[i].key = key].v]])

IntKeys == {ToString(i) : i \in -64..64} \cup {PSat, MSat}

RECURSIVE P(_, _, _)
P(kind, x, parent) ==
  CASE kind = "Count" -> LET e == PEnt(x) IN R(e.st, DummyDesc, [k |-> "Count", e |-> e.v])
    [] kind \in {"Sum", "Average", "Minimize", "Maximize"} ->
         LET f == CASE kind = "Sum" -> "sum" [] kind = "Average" -> "mean"
                    [] kind = "Minimize" -> "min" [] kind = "Maximize" -> "max" IN
         IF ~KeysOK(x, {"entries", f}, {"name"}) THEN Bad ELSE
         LET e == PEnt(x.v["entries"]) v == PNum(x.v[f]) nm == PName(x.v, "name")
             d == LeafD(kind, Own(nm.v, parent)) IN
         (* the mean of an aggregator without entries is not content: the library keeps a number written there in    *)
         (* some positions and recomputes it (NaN) in others - nothing is claimed about such a document              *)
         R(StAll(<<e.st, v.st, nm.st,
                   IF kind = "Average" /\ e.st = "valid" /\ v.st = "valid" /\ e.v = Q(0) /\ ~IsNaN(v.v) THEN "unspec" ELSE "valid">>), d,
           CASE kind = "Sum" -> [k |-> kind, e |-> e.v, s |-> v.v, nm |-> d.nm]
             [] kind = "Average" -> [k |-> kind, e |-> e.v, mean |-> v.v, nm |-> d.nm]
             [] kind = "Minimize" -> [k |-> kind, e |-> e.v, min |-> v.v, nm |-> d.nm]
             [] kind = "Maximize" -> [k |-> kind, e |-> e.v, max |-> v.v, nm |-> d.nm])
    [] kind = "Deviate" ->
         IF ~KeysOK(x, {"entries", "mean", "variance"}, {"name"}) THEN Bad ELSE
         LET e == PEnt(x.v["entries"]) m == PNum(x.v["mean"]) v == PNum(x.v["variance"]) nm == PName(x.v, "name")
             d == LeafD(kind, Own(nm.v, parent)) IN
         R(StAll(<<e.st, m.st, v.st, nm.st,
                   IF e.st = "valid" /\ m.st = "valid" /\ v.st = "valid" /\ e.v = Q(0) /\ (~IsNaN(m.v) \/ ~IsNaN(v.v))
                   THEN "unspec" ELSE "valid">>), d,     \* (the moments of an empty aggregator: as for Average)
           [k |-> kind, e |-> e.v, mean |-> m.v, vte |-> Mul(v.v, e.v), nm |-> d.nm])
    [] kind = "Bag" -> PBag(x, parent)
    [] kind = "Bin" ->
         IF ~KeysOK(x, {"low", "high", "entries", "values:type", "values", "underflow:type", "underflow",
                        "overflow:type", "overflow", "nanflow:type", "nanflow"}, {"name", "values:name"}) THEN Bad ELSE
         LET o == x.v e == PEnt(o["entries"]) lo == PNum(o["low"]) hi == PNum(o["high"])
             nm == PName(o, "name") vn == PName(o, "values:name")
             vt == PType(o, "values:type") ut == PType(o, "underflow:type")
             ot == PType(o, "overflow:type") nt == PType(o, "nanflow:type") IN
         IF StAll(<<vt.st, ut.st, ot.st, nt.st>>) = "invalid" \/ o["values"].j # "arr" \/ Len(o["values"].v) < 1 THEN Bad ELSE
         LET vs == [i \in DOMAIN o["values"].v |-> P(vt.v, o["values"].v[i], vn.v)]
             u == P(ut.v, o["underflow"], "") ov == P(ot.v, o["overflow"], "") n == P(nt.v, o["nanflow"], "")
             range == IF lo.st = "valid" /\ hi.st = "valid" /\ ~Lt(lo.v, hi.v) THEN "invalid" ELSE "valid"
             d == [k |-> "Bin", q |-> "?", nm |-> Own(nm.v, parent), fid |-> "", form |-> "none", num |-> Len(vs),
                   lo |-> lo.v, hi |-> hi.v, value |-> vs[1].d, under |-> u.d, over |-> ov.d, nan |-> n.d] IN
         R(StAll(<<e.st, lo.st, hi.st, nm.st, vn.st, range, StSet({vs[i].st : i \in DOMAIN vs}), u.st, ov.st, n.st,
                   IF Homog([i \in DOMAIN vs |-> vs[i].d]) THEN "valid" ELSE "unspec">>), d,
           [k |-> "Bin", e |-> e.v, lo |-> lo.v, hi |-> hi.v, vals |-> [i \in DOMAIN vs |-> vs[i].c],
            under |-> u.c, over |-> ov.c, nan |-> n.c, nm |-> d.nm])
    [] kind = "SparselyBin" ->
         IF ~KeysOK(x, {"binWidth", "entries", "bins:type", "bins", "nanflow:type", "nanflow", "origin"}, {"name", "bins:name"}) THEN Bad ELSE
         LET o == x.v e == PEnt(o["entries"]) w == PNum(o["binWidth"]) og == PNum(o["origin"])
             nm == PName(o, "name") bn == PName(o, "bins:name")
             bt == PType(o, "bins:type") nt == PType(o, "nanflow:type") IN
         IF bt.st = "invalid" \/ nt.st = "invalid" \/ o["bins"].j # "obj" THEN Bad ELSE
         LET keys == DOMAIN o["bins"].v
             bs == [key \in keys |-> P(bt.v, o["bins"].v[key], bn.v)]
             n == P(nt.v, o["nanflow"], "")
             wpos == IF w.st = "valid" /\ ~Gt(w.v, Q(0)) THEN "invalid" ELSE "valid"
             (* the keys of a serialised SparselyBin are decimal integers.  The model cannot parse text: keys in
                IntKeys are integers, the keys the mutation operators introduce ("extra", "zz") are not - such a
                document must be refused - and any other text is left unspecified *)
             keyst == StSet({IF key \in IntKeys THEN "valid" ELSE IF key \in {"extra", "zz"} THEN "invalid" ELSE "unspec"
                             : key \in keys})
             (* without a bin the document states only the child's kind (and name): an opaque child, as in Forget *)
             vd == IF keys = {} THEN (IF bt.v = "Count" THEN DummyDesc ELSE [Opaque(bt.v) EXCEPT !.nm = bn.v])
                   ELSE bs[CHOOSE key \in keys : TRUE].d
             d == [k |-> "SparselyBin", q |-> "?", nm |-> Own(nm.v, parent), fid |-> "", form |-> "none",
                   width |-> w.v, origin |-> og.v, value |-> vd, nan |-> n.d] IN
         R(StAll(<<e.st, w.st, og.st, wpos, keyst, nm.st, bn.st, StSet({bs[key].st : key \in keys}), n.st,
                   IF HomogSet({bs[key].d : key \in keys}) THEN "valid" ELSE "unspec",
                   IF keys = {} /\ bn.v # "" THEN "unspec" ELSE "valid">>), d,
           [k |-> "SparselyBin", e |-> e.v, width |-> w.v, origin |-> og.v, ctype |-> bt.v,
            bins |-> [key \in keys |-> bs[key].c], nan |-> n.c, nm |-> d.nm])
    [] kind = "Categorize" ->
         IF ~KeysOK(x, {"entries", "bins:type", "bins"}, {"name", "bins:name"}) THEN Bad ELSE
         LET o == x.v e == PEnt(o["entries"]) nm == PName(o, "name") bn == PName(o, "bins:name")
             bt == PType(o, "bins:type") IN
         IF bt.st = "invalid" \/ o["bins"].j # "obj" THEN Bad ELSE
         LET keys == DOMAIN o["bins"].v
             bs == [key \in keys |-> P(bt.v, o["bins"].v[key], bn.v)]
             (* without a bin the document states only the child's kind (and name): an opaque child, as in Forget *)
             vd == IF keys = {} THEN (IF bt.v = "Count" THEN DummyDesc ELSE [Opaque(bt.v) EXCEPT !.nm = bn.v])
                   ELSE bs[CHOOSE key \in keys : TRUE].d
             d == [k |-> "Categorize", q |-> "?", nm |-> Own(nm.v, parent), fid |-> "", form |-> "none", value |-> vd] IN
         R(StAll(<<e.st, nm.st, bn.st, StSet({bs[key].st : key \in keys}),
                   IF HomogSet({bs[key].d : key \in keys}) THEN "valid" ELSE "unspec",
                   IF keys = {} /\ bn.v # "" THEN "unspec" ELSE "valid">>), d,
           [k |-> "Categorize", e |-> e.v, ctype |-> bt.v, bins |-> [key \in keys |-> bs[key].c], nm |-> d.nm])
    [] kind \in {"CentrallyBin", "IrregularlyBin", "Stack"} ->
         IF ~KeysOK(x, {"entries", "bins:type", "bins", "nanflow:type", "nanflow"}, {"name", "bins:name"}) THEN Bad ELSE
         LET o == x.v e == PEnt(o["entries"]) nm == PName(o, "name") bn == PName(o, "bins:name")
             bt == PType(o, "bins:type") nt == PType(o, "nanflow:type")
             pos == IF kind = "CentrallyBin" THEN "center" ELSE "atleast" IN
         IF bt.st = "invalid" \/ nt.st = "invalid" \/ o["bins"].j # "arr" THEN Bad ELSE
         IF \E i \in DOMAIN o["bins"].v : ~KeysOK(o["bins"].v[i], {pos, "data"}, {}) THEN Bad ELSE
         IF kind = "CentrallyBin" /\ Len(o["bins"].v) < 2 THEN Bad ELSE
         IF Len(o["bins"].v) < 1 THEN Unspec ELSE
         LET bs == [i \in DOMAIN o["bins"].v |-> P(bt.v, o["bins"].v[i].v["data"], bn.v)]
             ps == [i \in DOMAIN o["bins"].v |-> PNum(o["bins"].v[i].v[pos])]
             n == P(nt.v, o["nanflow"], "")
             cs == [i \in DOMAIN ps |-> ps[i].v]
             base == [k |-> kind, q |-> "?", nm |-> Own(nm.v, parent), fid |-> "", form |-> "none", value |-> bs[1].d, nan |-> n.d]
             d == IF kind = "CentrallyBin" THEN [base EXCEPT !.k = kind] @@ [centers |-> cs]
                  ELSE IF kind = "Stack" THEN base @@ [thresholds |-> Tail(cs)]
                  ELSE base @@ [edges |-> Tail(cs)] IN
         R(StAll(<<e.st, nm.st, bn.st, StSet({bs[i].st : i \in DOMAIN bs}), StSet({ps[i].st : i \in DOMAIN ps}), n.st,
                   IF Homog([i \in DOMAIN bs |-> bs[i].d]) THEN "valid" ELSE "unspec",
                   (* positions that a constructor would not have produced: first threshold not -inf, centres not
                      increasing, NaN positions *)
                   IF \E i \in DOMAIN cs : IsNaN(cs[i]) THEN "unspec"
                   ELSE IF kind # "CentrallyBin" /\ cs[1] # NInf THEN "unspec"
                   ELSE IF kind = "CentrallyBin" /\ \E i \in 1..(Len(cs) - 1) : ~Lt(cs[i], cs[i + 1]) THEN "unspec"
                   ELSE "valid">>), d,
           IF kind = "CentrallyBin"
           THEN [k |-> kind, e |-> e.v, centers |-> cs, bins |-> [i \in DOMAIN bs |-> bs[i].c], nan |-> n.c, nm |-> d.nm]
           ELSE [k |-> kind, e |-> e.v, ths |-> cs, bins |-> [i \in DOMAIN bs |-> bs[i].c], nan |-> n.c, nm |-> d.nm])
    [] kind = "Fraction" ->
         IF ~KeysOK(x, {"entries", "sub:type", "numerator", "denominator"}, {"name", "sub:name"}) THEN Bad ELSE
         LET o == x.v e == PEnt(o["entries"]) nm == PName(o, "name") sn == PName(o, "sub:name") t == PType(o, "sub:type") IN
         IF t.st = "invalid" THEN Bad ELSE
         LET nu == P(t.v, o["numerator"], sn.v) de == P(t.v, o["denominator"], sn.v)
             d == [k |-> kind, q |-> "?", nm |-> Own(nm.v, parent), fid |-> "", form |-> "none", value |-> nu.d] IN
         R(StAll(<<e.st, nm.st, sn.st, nu.st, de.st, IF Alike(nu.d, de.d) THEN "valid" ELSE "unspec">>), d,
           [k |-> kind, e |-> e.v, num |-> nu.c, den |-> de.c, nm |-> d.nm])
    [] kind = "Select" ->
         IF ~KeysOK(x, {"entries", "sub:type", "data"}, {"name"}) THEN Bad ELSE
         LET o == x.v e == PEnt(o["entries"]) nm == PName(o, "name") t == PType(o, "sub:type") IN
         IF t.st = "invalid" THEN Bad ELSE
         LET cc == P(t.v, o["data"], "")
             d == [k |-> kind, q |-> "?", nm |-> Own(nm.v, parent), fid |-> "", form |-> "none", cut |-> cc.d] IN
         R(StAll(<<e.st, nm.st, cc.st>>), d, [k |-> kind, e |-> e.v, cut |-> cc.c, nm |-> d.nm])
    [] kind = "Label" ->
         IF ~KeysOK(x, {"entries", "sub:type", "data"}, {}) \/ x.v["data"].j # "obj" THEN Bad ELSE
         LET o == x.v e == PEnt(o["entries"]) t == PType(o, "sub:type") keys == DOMAIN o["data"].v IN
         IF t.st = "invalid" \/ keys = {} THEN Bad ELSE
         LET vs == [key \in keys |-> P(t.v, o["data"].v[key], "")] IN
         R(StAll(<<e.st, StSet({vs[key].st : key \in keys})>>),
           [k |-> kind, pairs |-> [key \in keys |-> vs[key].d]],
           [k |-> kind, e |-> e.v, pairs |-> [key \in keys |-> vs[key].c]])
    [] kind = "UntypedLabel" ->
         IF ~KeysOK(x, {"entries", "data"}, {}) \/ x.v["data"].j # "obj" THEN Bad ELSE
         LET o == x.v e == PEnt(o["entries"]) els == o["data"].v keys == DOMAIN els IN
         IF \E key \in keys : ~KeysOK(els[key], {"type", "data"}, {}) THEN Bad ELSE
         IF \E key \in keys : PType(els[key].v, "type").st = "invalid" THEN Bad ELSE
         IF keys = {} THEN Bad ELSE
         LET vs == [key \in keys |-> P(els[key].v["type"].v, els[key].v["data"], "")] IN
         R(StAll(<<e.st, StSet({vs[key].st : key \in keys})>>),
           [k |-> kind, pairs |-> [key \in keys |-> vs[key].d]],
           [k |-> kind, e |-> e.v, pairs |-> [key \in keys |-> vs[key].c]])
    [] kind = "Index" ->
         IF ~KeysOK(x, {"entries", "sub:type", "data"}, {}) \/ x.v["data"].j # "arr" THEN Bad ELSE
         LET o == x.v e == PEnt(o["entries"]) t == PType(o, "sub:type") els == o["data"].v IN
         IF t.st = "invalid" \/ Len(els) < 1 THEN Bad ELSE
         LET vs == [i \in DOMAIN els |-> P(t.v, els[i], "")] IN
         R(StAll(<<e.st, StSet({vs[i].st : i \in DOMAIN vs})>>),
           [k |-> kind, vals |-> [i \in DOMAIN vs |-> vs[i].d]],
           [k |-> kind, e |-> e.v, vals |-> [i \in DOMAIN vs |-> vs[i].c]])
    [] kind = "Branch" ->
         IF ~KeysOK(x, {"entries", "data"}, {}) \/ x.v["data"].j # "arr" THEN Bad ELSE
         LET o == x.v e == PEnt(o["entries"]) els == o["data"].v IN
         IF \E i \in DOMAIN els : ~KeysOK(els[i], {"type", "data"}, {}) THEN Bad ELSE
         IF \E i \in DOMAIN els : PType(els[i].v, "type").st = "invalid" THEN Bad ELSE
         IF Len(els) < 1 THEN Bad ELSE
         LET vs == [i \in DOMAIN els |-> P(els[i].v["type"].v, els[i].v["data"], "")] IN
         R(StAll(<<e.st, StSet({vs[i].st : i \in DOMAIN vs})>>),
           [k |-> kind, vals |-> [i \in DOMAIN vs |-> vs[i].d]],
           [k |-> kind, e |-> e.v, vals |-> [i \in DOMAIN vs |-> vs[i].c]])
    [] OTHER -> Unspec

(* the version rule: documents of this or an older specification version must load; a version whose major
   AND minor both exceed the library's must be refused; what only one plausible ordering refuses is unspecified *)
VersionSt(v) == IF v.j # "str" THEN "invalid"
                ELSE IF v.v \in {"0.9", "1.0", "1.1"} THEN "valid"
                ELSE IF v.v \in {"2.5", "3.2"} THEN "invalid"
                ELSE "unspec"

Parse(doc) ==
  IF doc.j # "obj" \/ ~({"type", "data", "version"} \subseteq DOMAIN doc.v) THEN Bad
  ELSE IF DOMAIN doc.v # {"type", "data", "version"} THEN Unspec
  ELSE IF VersionSt(doc.v["version"]) # "valid" THEN R(VersionSt(doc.v["version"]), DummyDesc, DummyCont)
  ELSE IF PType(doc.v, "type").st = "invalid" THEN Bad
  ELSE P(doc.v["type"].v, doc.v["data"], "")
=============================================================================
