------------------------------- MODULE HgSystem -------------------------------
(***************************************************************************)
(* The pool state machine: a finite pool of live aggregators that share    *)
(* one descriptor D, the public operations as actions, and a ghost         *)
(* multiset per slot recording which <<datum, weight>> pairs the slot      *)
(* stands for.  TLC checks on this model that the operational semantics    *)
(* (Fill / Merge / Scale / Zero of HgTree, shaped like the code) agrees    *)
(* with the denotational semantics Sem of HgSem in every reachable state   *)
(* (SemInv) - from which the homomorphism, commutativity, associativity,   *)
(* order independence and scaling laws follow - plus the bookkeeping       *)
(* invariants, the algebraic laws stated directly, and the frame           *)
(* condition of every action.                                              *)
(*                                                                         *)
(* Phases keep the model finite and focused (DESIGN 7): "fill" (data are   *)
(* distributed over the slots: the chunks of a partition, including empty  *)
(* chunks) then "op" (merges / in-place merges / scalings / copies in any  *)
(* order and grouping, and further fills of results and sources).          *)
(***************************************************************************)
EXTENDS HgSem, HgParse, HgViews

CONSTANTS D,          \* the descriptor all slots share
          Data,       \* set of datum records (the critical alphabet of D)
          W,          \* set of weights
          Fs,         \* set of scale factors
          NSlots,
          MaxFills,   \* fills in the fill phase
          MaxOps,     \* operations in the op phase
          LateFills   \* BOOLEAN: allow fills in the op phase (continuations)

VARIABLES pool,   \* [slot -> content]
          bag,    \* ghost: [slot -> multiset of <<datum, weight>>]
          nf, no, \* counters bounding the phases
          hist    \* history of operations (only used to emit behaviours; hidden by the VIEW)
vars == <<pool, bag, nf, no, hist>>
view == <<pool, bag, nf, no>>

Slots == 1..NSlots

Init == /\ pool = [s \in Slots |-> Zero(D)]
        /\ bag = [s \in Slots |-> EmptyBag]
        /\ nf = 0 /\ no = 0
        /\ hist = <<>>

Log(e) == hist' = Append(hist, e)

DoFill(s, x, w) ==
  /\ pool' = [pool EXCEPT ![s] = Fill(@, D, x, w)]
  /\ bag' = [bag EXCEPT ![s] = IF Gt(w, Q(0)) THEN @ (+) SetToBag({<<x, w>>}) ELSE @]
  /\ Log([op |-> "Fill", s |-> s, x |-> x, w |-> w])

DoAdd(t, a, b) ==
  /\ pool' = [pool EXCEPT ![t] = Merge(pool[a], pool[b])]
  /\ bag' = [bag EXCEPT ![t] = bag[a] (+) bag[b]]
  /\ Log([op |-> "Add", t |-> t, a |-> a, b |-> b])

DoIAdd(a, b) ==
  /\ pool' = [pool EXCEPT ![a] = Merge(pool[a], pool[b])]
  /\ bag' = [bag EXCEPT ![a] = bag[a] (+) bag[b]]
  /\ Log([op |-> "IAdd", a |-> a, b |-> b])

DoMul(t, a, f) ==
  /\ ~HasSqCount(D)
  /\ pool' = [pool EXCEPT ![t] = Scale(pool[a], D, f)]
  /\ bag' = [bag EXCEPT ![t] = ScaleBag(bag[a], f)]
  /\ Log([op |-> "Mul", t |-> t, a |-> a, f |-> f, side |-> "l"])

DoZero(t, a) ==
  /\ pool' = [pool EXCEPT ![t] = Zero(D)]
  /\ bag' = [bag EXCEPT ![t] = EmptyBag]
  /\ Log([op |-> "Zero", t |-> t, a |-> a])

DoCopy(t, a) ==
  /\ pool' = [pool EXCEPT ![t] = pool[a]]
  /\ bag' = [bag EXCEPT ![t] = bag[a]]
  /\ Log([op |-> "Copy", t |-> t, a |-> a])

FillPhase ==
  /\ nf < MaxFills /\ no = 0
  /\ nf' = nf + 1 /\ no' = no
  /\ \E s \in Slots, x \in Data, w \in W : DoFill(s, x, w)

OpPhase ==
  /\ no < MaxOps
  /\ no' = no + 1 /\ nf' = nf
  /\ \/ \E t, a, b \in Slots : DoAdd(t, a, b)
     \/ \E a, b \in Slots : DoIAdd(a, b)
     \/ \E t, a \in Slots, f \in Fs : DoMul(t, a, f)
     \/ \E t, a \in Slots : DoZero(t, a)
     \/ \E t, a \in Slots : DoCopy(t, a)
     \/ (LateFills /\ \E s \in Slots, x \in Data, w \in W : DoFill(s, x, w))

Next == FillPhase \/ OpPhase
Spec == Init /\ [][Next]_vars

-----------------------------------------------------------------------------
(* Properties                                                               *)

(* C02 / C01 / C07 / C08: operational = denotational, in every state        *)
SemInv == \A s \in Slots : pool[s] = Sem(D, bag[s])

(* C05: bookkeeping                                                          *)
WFInv == \A s \in Slots : WF(pool[s], D)

(* The algebraic laws below are stated for fixed slots 1, 2, 3.  The model  *)
(* is symmetric under permutations of slots (every action is quantified     *)
(* over all slots), so every assignment of reachable contents to slots      *)
(* occurs; quantifying over slot triples again would only repeat work.      *)

(* C01: + is commutative and associative on reachable states, Zero is a     *)
(* two-sided identity                                                        *)
Comm == Merge(pool[1], pool[2]) = Merge(pool[2], pool[1])
Assoc == NSlots < 3 \/
         Merge(Merge(pool[1], pool[2]), pool[3]) = Merge(pool[1], Merge(pool[2], pool[3]))
Unit == Merge(pool[1], Zero(D)) = pool[1] /\ Merge(Zero(D), pool[1]) = pool[1]

(* C08: scaling laws                                                         *)
ScaleLaws ==
  HasSqCount(D) \/
    /\ Scale(pool[1], D, Q(1)) = pool[1]
    /\ Scale(pool[1], D, Q(2)) = Merge(pool[1], pool[1])
    /\ Scale(Scale(pool[1], D, Q(2)), D, <<1, 2>>) = pool[1]
    /\ \A f \in Fs, g \in Fs :
         (Gt(f, Q(0)) /\ Gt(g, Q(0))) => Scale(Scale(pool[1], D, f), D, g) = Scale(pool[1], D, Mul(f, g))
    /\ \A f \in Fs : ~Gt(f, Q(0)) => Scale(pool[1], D, f) = Zero(D)
    /\ Scale(Merge(pool[1], pool[2]), D, Q(2)) = Merge(Scale(pool[1], D, Q(2)), Scale(pool[2], D, Q(2)))

(* C02: weights that are not > 0 (zero, negative, NaN) change nothing        *)
NullWeights == \A x \in Data, w \in W : ~Gt(w, Q(0)) => Fill(pool[1], D, x, w) = pool[1]

(* C02: filling two data in either order gives the same state               *)
PosW == {w \in W : Gt(w, Q(0))}       \* null weights are covered by NullWeights
FillCommutes ==
  \A x1 \in Data, x2 \in Data, w1 \in PosW, w2 \in PosW :
     Fill(Fill(pool[1], D, x1, w1), D, x2, w2) = Fill(Fill(pool[1], D, x2, w2), D, x1, w1)

(* C03 at the design level: a batch is the fold of its rows, and splitting  *)
(* a batch into successive batches changes nothing                          *)
BatchSplit ==
  \A x1 \in Data, x2 \in Data, w1 \in PosW, w2 \in W :
     FoldFill(pool[1], D, <<x1, x2>>, <<w1, w2>>)
       = FoldFill(FoldFill(pool[1], D, <<x1>>, <<w1>>), D, <<x2>>, <<w2>>)

(* C04 at the design level: the wire format is lossless and a fixpoint on every reachable state - the document   *)
(* of a state parses as valid, back to exactly that state, and re-serialises to the same document; a reloaded   *)
(* state merges like the original (its descriptor is what the document preserves: Forget)                        *)
RoundTrip ==
  \A s \in Slots :
    LET doc == ToDoc(pool[s], D)
        r == Parse(doc)
    IN /\ Strict(doc)
       /\ r.st = "valid"
       /\ r.c = pool[s]
       /\ DocEq(ToDoc(r.c, r.d), doc)
       /\ CompatD(D, r.d) /\ CompatD(r.d, D)

RTdoc(s) == ToDoc(pool[s], D)
RT1 == \A s \in Slots : Strict(RTdoc(s))
RT2 == \A s \in Slots : Parse(RTdoc(s)).st = "valid"
RT3 == \A s \in Slots : Parse(RTdoc(s)).c = pool[s]
RT4 == \A s \in Slots : LET r == Parse(RTdoc(s)) IN DocEq(ToDoc(r.c, r.d), RTdoc(s))
RT5 == \A s \in Slots : LET r == Parse(RTdoc(s)) IN CompatD(D, r.d) /\ CompatD(r.d, D)

(* C13 at the design level: the partition the views describe (HgViews: edges, entries) is the partition fill    *)
(* uses (HgTree: BinIndex / SparseKey / CentralIndex / IrrIndex) - on every reachable state a finite value lies  *)
(* in at most one bin of the edges, the entry reported there is the content of the bin fill routes it to, the    *)
(* edges increase, and the full-range entries plus the flows account for every filled weight                     *)
Binning(c) == c.k \in {"Bin", "SparselyBin", "CentrallyBin", "IrregularlyBin"}
FlowTotal(c) == CASE c.k = "Bin" -> Add(Add(c.under.e, c.over.e), c.nan.e)
                  [] c.k = "IrregularlyBin" -> c.nan.e    \* (its first threshold is -inf: no underflow)
                  [] OTHER -> c.nan.e
ViewsAgree ==
  \A s \in Slots : LET c == pool[s] IN
    (Binning(c) /\ (c.k = "SparselyBin" => ViewableSparse(c))) =>
      LET E == ViewEdges(c)
          ent == ViewEntries(c)
      IN /\ Len(ent) = Len(E) - 1
         /\ \A k \in 1..(Len(E) - 1) : Lt(E[k], E[k + 1])
         /\ Add(SumQ(ent), FlowTotal(c)) = c.e
         /\ \A x \in Data : LET q == QV(D, x) IN
              (IsNum(q) /\ IsFin(q)) =>
                LET K == {k \in 1..Len(ent) : Le(E[k], q) /\ Lt(q, E[k + 1])} IN
                /\ Cardinality(K) <= 1
                /\ \A k \in K : ent[k] = EntryAt(c, q)
                /\ (K = {} => EntryAt(c, q) = Q(0))
                (* and a sub-range query around q selects that bin *)
                /\ \A k \in K : LET X == ViewExpect(c, TRUE, q, FALSE, q, <<q>>) IN
                                  X.nb >= 1 /\ X.xent = <<ent[k]>> /\ Consistent(X)

(* C15 at the design level: Parse is sound on every single-point mutation of every reachable document - what it   *)
(* declares valid is a content of the parsed descriptor whose own document is the mutant (nothing dropped,       *)
(* duplicated or defaulted; totals are not re-derived: a document is not required to satisfy WF); the unmutated  *)
(* document is valid (RoundTrip)                                                                                 *)
(* (one degenerate class is left out: a number written into the variance of an EMPTY Deviate - the aggregator    *)
(* keeps variance x entries, which cannot hold a variance when entries = 0; the value is meaningless either way) *)
EmptyVariance(doc, m) ==
  /\ m.kind = "retype" /\ Len(m.p) > 0 /\ m.p[Len(m.p)].k = "variance"
  /\ LET parent == At(doc, SubSeq(m.p, 1, Len(m.p) - 1)) IN
       parent.j = "obj" /\ "entries" \in DOMAIN parent.v /\ parent.v.entries = JNum(Q(0))
ParseSound ==
  \A s \in Slots :
    LET doc == ToDoc(pool[s], D) IN
    \A m \in {mm \in MutIds(doc) : ~EmptyVariance(doc, mm)} :
      LET md == Apply(doc, m)
          r == Parse(md)
      IN r.st = "valid" => (* (an older compatible version number is the one thing that is read but not kept) *)
                           /\ DocEq(ToDoc(r.c, r.d), IF m.kind = "version" THEN doc ELSE md)
(* ... and it is not vacuous: most mutants are invalid                                                           *)
MutantStats(doc) == LET M == MutIds(doc) IN
  [n |-> Cardinality(M), invalid |-> Cardinality({m \in M : Parse(Apply(doc, m)).st = "invalid"}),
   valid |-> Cardinality({m \in M : Parse(Apply(doc, m)).st = "valid"})]

(* C06 / C07: every step changes at most the slot its action names          *)
FrameOK ==
  [][\E t \in Slots : \A s \in Slots \ {t} : pool'[s] = pool[s]]_vars

(* emitted behaviours for replay into the implementation                     *)
EmitAt == MaxFills + MaxOps
=============================================================================
