------------------------------- MODULE HgUserFcn -------------------------------
(***************************************************************************)
(* User-function wrappers (C17): serializable, cached, named.              *)
(*                                                                         *)
(* A wrapper is abstracted to                                              *)
(*   [base     : "lam" | "def" | "str"   what was wrapped (a lambda, a def  *)
(*               function, a string expression),                            *)
(*    wrapped  : is it a UserFcn yet,                                       *)
(*    cached   : is it a CachedFcn,                                         *)
(*    name     : user-visible name ("" = none),                             *)
(*    explicit : was the name given by `named`,                             *)
(*    memo     : the argument of the last call of a cached wrapper (0 = none)] *)
(* A def function / string expression gets an automatic name when it is    *)
(* wrapped (the function's name / the expression text), which is NOT a     *)
(* user-given name: `named` must still be applicable afterwards, so that   *)
(* the three wrappers commute.  The cache is transparent: Call returns     *)
(* F[arg] whatever the memo holds.                                         *)
(***************************************************************************)
EXTENDS Integers, Sequences, FiniteSets, TLC

CONSTANTS NArgs,      \* arguments are 1..NArgs
          F           \* F[arg] : what the underlying function returns (a sequence of integers)

(* (the type annotations in comments are for Apalache, which proves the invariants inductive: see                *)
(* spec/apalache/MC_UserFcnInd.tla)                                                                             *)
\* @typeAlias: wrapper = { base: Str, wrapped: Bool, cached: Bool, name: Str, explicit: Bool, memo: Int };
HgUserFcn_typedefs == TRUE

\* @type: Str => Str;
Auto(base) == CASE base = "lam" -> "" [] base = "def" -> "auto:def" [] OTHER -> "auto:str"
\* @type: Str => $wrapper;
Raw(base) == [base |-> base, wrapped |-> FALSE, cached |-> FALSE, name |-> "", explicit |-> FALSE, memo |-> 0]

\* @type: $wrapper => $wrapper;
Serializable(w) == IF w.wrapped THEN w ELSE [w EXCEPT !.wrapped = TRUE, !.name = Auto(w.base)]
\* @type: $wrapper => $wrapper;
Cached(w) == [Serializable(w) EXCEPT !.cached = TRUE]
\* @type: $wrapper => Bool;
CanName(w) == ~w.explicit
\* @type: (Str, $wrapper) => $wrapper;
Named(n, w) == [Serializable(w) EXCEPT !.name = n, !.explicit = TRUE]
\* @type: ($wrapper, Int) => Seq(Int);
CallRet(w, a) == F[a]
\* @type: ($wrapper, Int) => $wrapper;
AfterCall(w, a) == IF w.cached THEN [w EXCEPT !.memo = a] ELSE w
\* @type: ($wrapper, $wrapper) => Bool;
EqW(w1, w2) == w1.base = w2.base /\ w1.name = w2.name

-----------------------------------------------------------------------------
(* the model: every application order of the wrappers and every call       *)
(* sequence up to a bound                                                  *)
CONSTANTS MaxOps
VARIABLES w, applied, n, lastret, lastarg
vars == <<w, applied, n, lastret, lastarg>>
Names == {"n1", "n2"}

Init == /\ \E b \in {"lam", "def", "str"} : w = Raw(b)
        /\ applied = {} /\ n = 0 /\ lastret = <<>> /\ lastarg = 0
Step(w2, app) == w' = w2 /\ applied' = applied \cup app /\ n' = n + 1 /\ UNCHANGED <<lastret, lastarg>>
Next == /\ n < MaxOps
        /\ \/ Step(Serializable(w), {"S"})
           \/ Step(Cached(w), {"C"})
           \/ \E nm \in Names : CanName(w) /\ Step(Named(nm, w), {nm})
           \/ \E a \in 1..NArgs : /\ w.wrapped
                                  /\ w' = AfterCall(w, a) /\ lastret' = CallRet(w, a) /\ lastarg' = a
                                  /\ n' = n + 1 /\ UNCHANGED applied
Spec == Init /\ [][Next]_vars

(* the wrappers commute: the result depends only on WHICH wrappers were applied, not on their order *)
OrderIndependent ==
  /\ w.cached = ("C" \in applied)
  /\ w.explicit = (applied \cap Names # {})
  /\ w.wrapped = (applied # {})
  /\ (w.explicit => w.name \in applied \cap Names)
  /\ (~w.explicit /\ w.wrapped => w.name = Auto(w.base))
(* at most one user-given name *)
OneName == Cardinality(applied \cap Names) <= 1
(* the cache is transparent: a call returns what the underlying function returns for THAT argument, whatever was
   called before and whether or not the wrapper caches *)
Transparent == lastarg = 0 \/ lastret = F[lastarg]
=============================================================================
