------------------------------- MODULE HgMutate -------------------------------
(***************************************************************************)
(* Enumerates, for every base document of the input file, all single-point *)
(* structural mutations (HgDoc!MutIds) and prints each mutant.  The        *)
(* harness feeds the mutants to Factory.fromJson and records what happens; *)
(* spec/HgTrace.tla (event FromDoc) then judges the recorded outcome with  *)
(* HgParse!Parse.  This module only GENERATES inputs from the              *)
(* specification's mutation operators (spec -> code direction).            *)
(***************************************************************************)
EXTENDS HgParse, Json, IOUtils
Docs == JsonDeserialize(IOEnv.TRACE_FILE).docs
Out(i, m) == LET md == Apply(Docs[i], m) IN [base |-> i, kind |-> m.kind, doc |-> md, st |-> Parse(md).st]
ASSUME \A i \in DOMAIN Docs : \A m \in MutIds(Docs[i]) : PrintT(ToJson(Out(i, m)))
VARIABLE v
Spec == v = 0 /\ [][v' = v]_v
=============================================================================
