------------------------------- MODULE HgNum -------------------------------
(***************************************************************************)
(* Extended rational arithmetic for the Histogrammar specification.        *)
(*                                                                         *)
(* TLC has no reals and only 32-bit integers, so every number of the model *)
(* is a pair <<n, d>>:                                                     *)
(*     finite p/q : <<p, q>> with q > 0 and gcd(p, q) = 1                  *)
(*     NaN : <<0, 0>>      +inf : <<1, 0>>      -inf : <<-1, 0>>            *)
(* The operators implement the IEEE-like conventions that the library's    *)
(* `if math.isnan ... elif math.isinf ...` ladders distinguish (NaN        *)
(* poisons, inf + -inf = NaN, 0 * inf = NaN, comparisons with NaN FALSE).  *)
(* Equality is equality of normalised pairs.                               *)
(***************************************************************************)
EXTENDS Integers, Sequences, FiniteSets, TLC

NaN  == <<0, 0>>
PInf == <<1, 0>>
NInf == <<-1, 0>>
Q(i) == <<i, 1>>

IsNaN(a) == a = NaN
IsFin(a) == a[2] # 0
IsInf(a) == a[2] = 0 /\ a[1] # 0

Abs(i) == IF i < 0 THEN -i ELSE i
Sgn(i) == IF i > 0 THEN 1 ELSE IF i < 0 THEN -1 ELSE 0

RECURSIVE Gcd(_, _)
Gcd(a, b) == IF b = 0 THEN a ELSE Gcd(b, a % b)

Norm(n, d) == IF d = 0 THEN <<Sgn(n), 0>>
              ELSE LET g == Gcd(Abs(n), Abs(d))
                       s == IF d < 0 THEN -1 ELSE 1
                   IN <<s * (n \div g), s * (d \div g)>>

Neg(a) == <<-a[1], a[2]>>

Add(a, b) ==
  IF IsNaN(a) \/ IsNaN(b) THEN NaN
  ELSE IF ~IsFin(a) /\ ~IsFin(b) THEN (IF a = b THEN a ELSE NaN)
  ELSE IF ~IsFin(a) THEN a
  ELSE IF ~IsFin(b) THEN b
  ELSE LET g == Gcd(a[2], b[2])
       IN Norm(a[1] * (b[2] \div g) + b[1] * (a[2] \div g), (a[2] \div g) * b[2])

Sub(a, b) == Add(a, Neg(b))

Mul(a, b) ==
  IF IsNaN(a) \/ IsNaN(b) THEN NaN
  ELSE IF ~IsFin(a) \/ ~IsFin(b)
       THEN (IF Sgn(a[1]) * Sgn(b[1]) = 0 THEN NaN ELSE <<Sgn(a[1]) * Sgn(b[1]), 0>>)
  ELSE LET g1 == Gcd(Abs(a[1]), b[2])
           g2 == Gcd(Abs(b[1]), a[2])
       IN Norm((a[1] \div g1) * (b[1] \div g2), (a[2] \div g2) * (b[2] \div g1))

(* Division with the float conventions x/0 = +-inf (the library never      *)
(* divides by zero on a path the model exercises; kept total for safety).  *)
Div(a, b) ==
  IF IsNaN(a) \/ IsNaN(b) THEN NaN
  ELSE IF IsInf(a) /\ IsInf(b) THEN NaN
  ELSE IF IsInf(a) THEN (IF b[1] = 0 THEN a ELSE <<Sgn(a[1]) * Sgn(b[1]), 0>>)
  ELSE IF IsInf(b) THEN Q(0)
  ELSE IF b[1] = 0 THEN (IF a[1] = 0 THEN NaN ELSE <<Sgn(a[1]), 0>>)
  ELSE Mul(a, Norm(b[2], b[1]))

Lt(a, b) ==
  IF IsNaN(a) \/ IsNaN(b) THEN FALSE
  ELSE IF ~IsFin(a) /\ ~IsFin(b) THEN a[1] < b[1]
  ELSE IF ~IsFin(a) THEN a[1] < 0
  ELSE IF ~IsFin(b) THEN b[1] > 0
  ELSE a[1] * b[2] < b[1] * a[2]
Gt(a, b) == Lt(b, a)
Ge(a, b) == IF IsNaN(a) \/ IsNaN(b) THEN FALSE ELSE ~Lt(a, b)
Le(a, b) == Ge(b, a)

(* minplus / maxplus of util.py: NaN means "no data yet"                   *)
MinPlus(x, y) == IF IsNaN(x) /\ IsNaN(y) THEN NaN
                 ELSE IF IsNaN(x) THEN y
                 ELSE IF IsNaN(y) \/ Lt(x, y) THEN x ELSE y
MaxPlus(x, y) == IF IsNaN(x) /\ IsNaN(y) THEN NaN
                 ELSE IF IsNaN(x) THEN y
                 ELSE IF IsNaN(y) \/ Gt(x, y) THEN x ELSE y

FloorQ(a) == a[1] \div a[2]          \* finite a only; TLA+ \div floors

(* canonical text of a number, used as the key of numeric Bag entries       *)
KeyN(a) == IF IsNaN(a) THEN "nan" ELSE ToString(a[1]) \o "/" \o ToString(a[2])

IsNum(a) == /\ a \in Seq(Int) /\ Len(a) = 2 /\ a[2] >= 0
            /\ (a[2] = 0 => a[1] \in {-1, 0, 1})
=============================================================================
