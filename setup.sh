#!/bin/sh
# Offline setup: syntax-check every specification module with SANY and smoke-test the harness imports.
set -e
cd "$(dirname "$0")"
for m in spec/HgNum.tla spec/HgTree.tla spec/HgSem.tla spec/HgSystem.tla spec/HgTrace.tla; do
  java -cp /opt/veriftools/tla/tla2tools.jar:/opt/veriftools/tla/CommunityModules-deps.jar tla2sany.SANY "$m" >/tmp/sany.$$ 2>&1 || { cat /tmp/sany.$$; rm -f /tmp/sany.$$; exit 1; }
  if grep -q "error" /tmp/sany.$$; then cat /tmp/sany.$$; rm -f /tmp/sany.$$; exit 1; fi
done
rm -f /tmp/sany.$$
PYTHONPATH=/repo:. /venv/bin/python -c "import harness.engine, histogrammar; print('setup ok')"
