#!/bin/sh
# Offline setup: syntax-check every specification module with SANY and smoke-test the harness imports.
set -e
cd "$(dirname "$0")/spec"
for m in *.tla; do
  out=$(java -cp /opt/veriftools/tla/tla2tools.jar:/opt/veriftools/tla/CommunityModules-deps.jar tla2sany.SANY "$m" 2>&1) || { echo "$out"; exit 1; }
  case "$out" in *rror*) echo "$out"; exit 1;; esac
done
cd ..
PYTHONPATH=/repo:. /venv/bin/python -c "import harness.engine, histogrammar; print('setup ok')"
